import AioProps.C03Main
/-!
# C03 for chunk-framed bodies: the body-parser laws of `C03Main.PayloadLaws` for `chunkedLoop`
-/
namespace Aio.Http
open Aio

/-- results that agree on everything observable: same outcome, same events up to the way body
bytes are grouped into `data` events -/
def PRel (x y : PRes × List Ev) : Prop := x.1 = y.1 ∧ proj x.2 = proj y.2

theorem PRel.rfl' (x : PRes × List Ev) : PRel x x := ⟨rfl, rfl⟩

/-! ### the event accumulator is only appended to -/

def KAcc (k : LoopK) : Prop := ∀ p c evs, k p c evs = ((k p c []).1, evs ++ (k p c []).2)

theorem chunkEofStep_acc (cfg : Cfg) (k : LoopK) (hk : KAcc k) : KAcc (chunkEofStep cfg k) := by
  intro p c evs
  unfold chunkEofStep
  simp only []
  repeat' split
  all_goals first | (rw [hk]) | simp

theorem trailersStep_acc (cfg : Cfg) (k : LoopK) (hk : KAcc k) : KAcc (trailersStep cfg k) := by
  intro p c evs
  unfold trailersStep
  simp only []
  repeat' split
  all_goals first | (rw [hk]) | simp | simp_all

theorem chunkStep_acc (cfg : Cfg) (k : LoopK) (hk : KAcc k) : KAcc (chunkStep cfg k) := by
  intro p c evs
  unfold chunkStep
  simp only []
  split
  · simp
  · rw [chunkEofStep_acc cfg k hk _ _ (evs ++ _ ++ _), chunkEofStep_acc cfg k hk _ _ ([] ++ _ ++ _)]
    simp

theorem sizeStep_acc (cfg : Cfg) (k : LoopK) (hk : KAcc k) : KAcc (sizeStep cfg k) := by
  intro p c evs
  unfold sizeStep
  simp only []
  repeat' split
  all_goals first
    | (rw [trailersStep_acc cfg k hk])
    | (rw [chunkStep_acc cfg k hk _ _ (evs ++ _), chunkStep_acc cfg k hk _ _ ([] ++ _)]; simp)
    | simp
    | simp_all

theorem chunkedLoop_acc (cfg : Cfg) : ∀ f, KAcc (chunkedLoop cfg f) := by
  intro f
  induction f with
  | zero => intro p c evs; simp [chunkedLoop]
  | succ n ih =>
    intro p c evs
    rw [chunkedLoop, chunkedLoop]
    split
    · simp
    · cases p.cstate with
      | size => exact sizeStep_acc cfg _ ih p c evs
      | chunk => exact chunkStep_acc cfg _ ih p c evs
      | chunkEof => exact chunkEofStep_acc cfg _ ih p c evs
      | trailers => exact trailersStep_acc cfg _ ih p c evs

end Aio.Http

namespace Aio.Http
open Aio

/-! ### enough fuel is enough -/

theorem drop_lt_of_take_eq (x sep : Bytes) (n : Nat) (hn : 1 ≤ n) (hs : sep ≠ [])
    (h : (x.take n == sep) = true) : (x.drop n).length < x.length := by
  have hx : x ≠ [] := by
    intro hx; subst hx; simp at h; exact hs h
  have : 0 < x.length := List.length_pos_iff.mpr hx
  simp; omega

theorem sepBytes_ne (lax : Bool) : sepBytes lax ≠ [] := by unfold sepBytes; split <;> simp
theorem sepBytes_length (lax : Bool) : (sepBytes lax).length = sepLen lax := by
  unfold sepBytes sepLen; split <;> rfl
theorem skipCR_length_le (lax : Bool) (c : Bytes) : (skipCR lax c).length ≤ c.length := by
  unfold skipCR
  split
  · split <;> simp
  · exact Nat.le_refl _

/-- `k1` and `k2` agree on inputs shorter than `m` -/
def KAgree (m : Nat) (k1 k2 : LoopK) : Prop := ∀ p c evs, c.length < m → k1 p c evs = k2 p c evs

theorem chunkEofStep_agree (cfg : Cfg) (k1 k2 : LoopK) (m : Nat) (hk : KAgree m k1 k2)
    (p : PState) (c : Bytes) (evs : List Ev) (hc : c.length ≤ m) :
    chunkEofStep cfg k1 p c evs = chunkEofStep cfg k2 p c evs := by
  unfold chunkEofStep
  simp only []
  split
  · next h =>
    apply hk
    have h1 := drop_lt_of_take_eq _ _ _ (sepLen_pos cfg.lax) (sepBytes_ne cfg.lax) h
    have h2 := skipCR_length_le cfg.lax c
    omega
  · rfl

theorem chunkStep_agree (cfg : Cfg) (k1 k2 : LoopK) (m : Nat) (hk : KAgree m k1 k2)
    (p : PState) (c : Bytes) (evs : List Ev) (hc : c.length ≤ m) :
    chunkStep cfg k1 p c evs = chunkStep cfg k2 p c evs := by
  unfold chunkStep
  simp only []
  split
  · rfl
  · exact chunkEofStep_agree cfg k1 k2 m hk _ _ _ (by simp; omega)

theorem trailersStep_agree (cfg : Cfg) (k1 k2 : LoopK) (m : Nat) (hk : KAgree m k1 k2)
    (p : PState) (c : Bytes) (evs : List Ev) (hc : c.length ≤ m) :
    trailersStep cfg k1 p c evs = trailersStep cfg k2 p c evs := by
  unfold trailersStep
  cases hf : findSep cfg.lax c with
  | none => rfl
  | some pos =>
    have hb := findSep_bound cfg.lax c pos hf
    have hs := sepLen_pos cfg.lax
    simp only []
    repeat' split
    all_goals first | rfl | (apply hk; simp; omega)

theorem sizeStep_agree (cfg : Cfg) (k1 k2 : LoopK) (m : Nat) (hk : KAgree m k1 k2)
    (p : PState) (c : Bytes) (evs : List Ev) (hc : c.length ≤ m) :
    sizeStep cfg k1 p c evs = sizeStep cfg k2 p c evs := by
  unfold sizeStep
  cases hf : findSep cfg.lax c with
  | none => rfl
  | some pos =>
    have hb := findSep_bound cfg.lax c pos hf
    have hs := sepLen_pos cfg.lax
    simp only []
    repeat' split
    all_goals first
      | rfl
      | exact trailersStep_agree cfg k1 k2 m hk _ _ _ (by simp; omega)
      | exact chunkStep_agree cfg k1 k2 m hk _ _ _ (by simp; omega)

theorem chunkedLoop_fuel (cfg : Cfg) : ∀ (f1 f2 : Nat) (p : PState) (c : Bytes) (evs : List Ev),
    c.length < f1 → c.length < f2 → chunkedLoop cfg f1 p c evs = chunkedLoop cfg f2 p c evs := by
  intro f1
  induction f1 with
  | zero => intro f2 p c evs h; omega
  | succ n ih =>
    intro f2 p c evs h1 h2
    cases f2 with
    | zero => omega
    | succ m =>
      have hk : KAgree c.length (chunkedLoop cfg n) (chunkedLoop cfg m) := by
        intro p c' evs hc'
        exact ih m p c' evs (by omega) (by omega)
      rw [chunkedLoop, chunkedLoop]
      split
      · rfl
      · cases p.cstate with
        | size => exact sizeStep_agree cfg _ _ _ hk p c evs (Nat.le_refl _)
        | chunk => exact chunkStep_agree cfg _ _ _ hk p c evs (Nat.le_refl _)
        | chunkEof => exact chunkEofStep_agree cfg _ _ _ hk p c evs (Nat.le_refl _)
        | trailers => exact trailersStep_agree cfg _ _ _ hk p c evs (Nat.le_refl _)

end Aio.Http

namespace Aio.Http
open Aio

/-! ### cutting the input of the loop: the run on `a` that ends needing more input, continued
with `tail ++ b`, against the run on `a ++ b` -/

theorem prel_of_acc (k : LoopK) (hk : KAcc k) (p : PState) (c : Bytes) (e1 e2 : List Ev)
    (h : proj e1 = proj e2) : PRel (k p c e1) (k p c e2) := by
  rw [hk p c e1, hk p c e2]
  exact ⟨rfl, by simp [h]⟩

theorem skipCR_append (lax : Bool) (a b : Bytes) (ha : a ≠ []) : skipCR lax (a ++ b) = skipCR lax a ++ b := by
  unfold skipCR
  split
  · cases a with
    | nil => exact absurd rfl ha
    | cons x t =>
      simp only [List.cons_append]
      split <;> split <;> simp_all
  · rfl

theorem le_of_take_beq (x s : Bytes) (n : Nat) (h : (x.take n == s) = true) (hs : s.length = n) : n ≤ x.length := by
  have h1 : x.take n = s := by simpa using h
  have : (x.take n).length = n := by rw [h1, hs]
  rw [List.length_take] at this
  omega

theorem pstate_tail_eta (p : PState) (h : p.tail = []) : { p with tail := [] } = p := by
  cases p; simp_all

/-- the statement for the loop at fuel `f1` (used as induction hypothesis by the step lemmas) -/
def SplitAt (cfg : Cfg) (f1 : Nat) : Prop :=
  ∀ (p : PState) (a b : Bytes) (evs : List Ev) (p' : PState) (evs' : List Ev) (f2 f3 : Nat),
    a.length < f1 → p.tail = [] → b ≠ [] →
    chunkedLoop cfg f1 p a evs = (.needs p', evs') →
    (a ++ b).length < f2 → (p'.tail ++ b).length < f3 →
    PRel (chunkedLoop cfg f2 p (a ++ b) evs) (chunkedLoop cfg f3 { p' with tail := [] } (p'.tail ++ b) evs')

/-- the common base case: the branch `step` stopped keeping all of `a` as the tail -/
theorem split_base (cfg : Cfg) (step : LoopK → LoopK)
    (hagree : ∀ (k1 k2 : LoopK) (m : Nat), KAgree m k1 k2 → ∀ p c evs, c.length ≤ m → step k1 p c evs = step k2 p c evs)
    (cs : CState)
    (hloop : ∀ f p c evs, c ≠ [] → p.cstate = cs → chunkedLoop cfg (f + 1) p c evs = step (chunkedLoop cfg f) p c evs)
    (p : PState) (a b : Bytes) (evs : List Ev) (f2 f3 : Nat) (ht : p.tail = []) (hcs : p.cstate = cs) (hb : b ≠ [])
    (h2 : (a ++ b).length ≤ f2) (h3 : (a ++ b).length < f3) :
    PRel (step (chunkedLoop cfg f2) p (a ++ b) evs)
      (chunkedLoop cfg f3 { ({ p with tail := a } : PState) with tail := [] } (({ p with tail := a } : PState).tail ++ b) evs) := by
  have e1 : ({ ({ p with tail := a } : PState) with tail := [] } : PState) = p := by cases p; simp_all
  rw [e1]
  simp only []
  cases f3 with
  | zero => omega
  | succ m =>
    have hne : a ++ b ≠ [] := by cases a <;> simp_all
    rw [hloop m p (a ++ b) evs hne hcs]
    have hk : KAgree (a ++ b).length (chunkedLoop cfg f2) (chunkedLoop cfg m) := by
      intro p c evs hc
      exact chunkedLoop_fuel cfg f2 m p c evs (by omega) (by omega)
    rw [hagree _ _ _ hk p (a ++ b) evs (Nat.le_refl _)]
    exact PRel.rfl' _

theorem chunkedLoop_eof (cfg : Cfg) (f : Nat) (p : PState) (c : Bytes) (evs : List Ev) (hc : c ≠ [])
    (hs : p.cstate = .chunkEof) : chunkedLoop cfg (f + 1) p c evs = chunkEofStep cfg (chunkedLoop cfg f) p c evs := by
  rw [chunkedLoop]
  have : c.isEmpty = false := by cases c <;> simp_all
  simp [this, hs]
theorem chunkedLoop_chunk (cfg : Cfg) (f : Nat) (p : PState) (c : Bytes) (evs : List Ev) (hc : c ≠ [])
    (hs : p.cstate = .chunk) : chunkedLoop cfg (f + 1) p c evs = chunkStep cfg (chunkedLoop cfg f) p c evs := by
  rw [chunkedLoop]
  have : c.isEmpty = false := by cases c <;> simp_all
  simp [this, hs]
theorem chunkedLoop_trailers (cfg : Cfg) (f : Nat) (p : PState) (c : Bytes) (evs : List Ev) (hc : c ≠ [])
    (hs : p.cstate = .trailers) : chunkedLoop cfg (f + 1) p c evs = trailersStep cfg (chunkedLoop cfg f) p c evs := by
  rw [chunkedLoop]
  have : c.isEmpty = false := by cases c <;> simp_all
  simp [this, hs]
theorem chunkedLoop_size (cfg : Cfg) (f : Nat) (p : PState) (c : Bytes) (evs : List Ev) (hc : c ≠ [])
    (hs : p.cstate = .size) : chunkedLoop cfg (f + 1) p c evs = sizeStep cfg (chunkedLoop cfg f) p c evs := by
  rw [chunkedLoop]
  have : c.isEmpty = false := by cases c <;> simp_all
  simp [this, hs]

theorem chunkEofStep_split (cfg : Cfg) (f1 : Nat) (ih : SplitAt cfg f1)
    (p : PState) (a b : Bytes) (evs : List Ev) (p' : PState) (evs' : List Ev) (f2 f3 : Nat)
    (ha : a.length ≤ f1) (ht : p.tail = []) (hcs : p.cstate = .chunkEof) (hb : b ≠ [])
    (h : chunkEofStep cfg (chunkedLoop cfg f1) p a evs = (.needs p', evs'))
    (h2 : (a ++ b).length ≤ f2) (h3 : (p'.tail ++ b).length < f3) :
    PRel (chunkEofStep cfg (chunkedLoop cfg f2) p (a ++ b) evs)
      (chunkedLoop cfg f3 { p' with tail := [] } (p'.tail ++ b) evs') := by
  unfold chunkEofStep at h
  simp only [] at h
  split at h
  · next hsep =>
    -- the separator was complete in `a`
    have hn := le_of_take_beq _ _ _ hsep (sepBytes_length cfg.lax)
    have hane : a ≠ [] := by
      intro h0; subst h0
      have h00 : (skipCR cfg.lax []).length ≤ 0 := skipCR_length_le cfg.lax []
      have := sepLen_pos cfg.lax
      omega
    have hlt := drop_lt_of_take_eq _ _ _ (sepLen_pos cfg.lax) (sepBytes_ne cfg.lax) hsep
    rw [List.length_drop] at hlt
    have hle := skipCR_length_le cfg.lax a
    unfold chunkEofStep
    simp only []
    rw [skipCR_append cfg.lax a b hane, take_append_of_le _ b _ hn, drop_append_of_le _ b _ hn]
    simp only [hsep, if_true]
    exact ih _ _ b evs p' evs' f2 f3 (by rw [List.length_drop]; omega) (by simpa using ht) hb h (by simp at h2 ⊢; omega) h3
  · split at h
    · cases h
    · injection h with h1 h2'
      injection h1 with h1
      subst h1; subst h2'
      exact split_base cfg (chunkEofStep cfg) (fun k1 k2 m hk p c evs hc => chunkEofStep_agree cfg k1 k2 m hk p c evs hc)
        .chunkEof (chunkedLoop_eof cfg) p a b evs f2 f3 ht hcs hb h2 (by simpa using h3)

end Aio.Http

namespace Aio.Http
open Aio

theorem chunkStep_split (cfg : Cfg) (f1 : Nat) (ih : SplitAt cfg f1)
    (p : PState) (a b : Bytes) (evs : List Ev) (p' : PState) (evs' : List Ev) (f2 f3 : Nat)
    (ha : a.length ≤ f1) (ht : p.tail = []) (hcs : p.cstate = .chunk) (hb : b ≠ [])
    (h : chunkStep cfg (chunkedLoop cfg f1) p a evs = (.needs p', evs'))
    (h2 : (a ++ b).length ≤ f2) (h3 : (p'.tail ++ b).length < f3) :
    PRel (chunkStep cfg (chunkedLoop cfg f2) p (a ++ b) evs)
      (chunkedLoop cfg f3 { p' with tail := [] } (p'.tail ++ b) evs') := by
  unfold chunkStep at h
  simp only [] at h
  by_cases hz : p.chunkSize - a.length = 0
  · -- all of the chunk data is in `a`
    have hle : p.chunkSize ≤ a.length := by omega
    simp only [hz, bne_self_eq_false, Bool.false_eq_true, if_false] at h
    unfold chunkStep
    have hz' : p.chunkSize - (a ++ b).length = 0 := by simp; omega
    simp only [hz', bne_self_eq_false, Bool.false_eq_true, if_false]
    rw [take_append_of_le a b _ hle, drop_append_of_le a b _ hle]
    exact chunkEofStep_split cfg f1 ih _ (a.drop p.chunkSize) b _ p' evs' f2 f3 (by simp; omega) (by simpa using ht) rfl hb h
      (by simp at h2 ⊢; omega) h3
  · -- `a` ends inside the chunk data
    have hne : (p.chunkSize - a.length != 0) = true := by simpa using hz
    simp only [hne, if_true] at h
    injection h with h1 h2'
    injection h1 with h1
    subst h1; subst h2'
    have hlt : a.length < p.chunkSize := by omega
    simp only [ht, List.nil_append] at h3 ⊢
    rcases p with ⟨ty, len, cs, csz, tl, trl, mt⟩
    simp only at ht hcs hlt hz hne ⊢
    subst ht; subst hcs
    cases f3 with
    | zero => omega
    | succ m =>
      rw [chunkedLoop_chunk cfg m _ b _ hb rfl]
      unfold chunkStep
      simp only []
      have e1 : csz - (a ++ b).length = csz - a.length - b.length := by simp; omega
      have e2 : (a ++ b).take csz = a ++ b.take (csz - a.length) := by
        rw [List.take_append, List.take_of_length_le (by omega)]
      have e3 : (a ++ b).drop csz = b.drop (csz - a.length) := by
        rw [List.drop_append, List.drop_eq_nil_of_le (by omega)]; simp
      have e4 : a.take csz = a := List.take_of_length_le (by omega)
      rw [e1, e2, e3, e4]
      have hproj : proj (evs ++ dataEv (a ++ b.take (csz - a.length))) =
          proj (evs ++ dataEv a ++ dataEv (b.take (csz - a.length))) := by simp
      split
      · exact ⟨rfl, hproj⟩
      · have hk : KAgree (b.drop (csz - a.length)).length (chunkedLoop cfg f2) (chunkedLoop cfg m) := by
          intro p c evs hc
          have : (b.drop (csz - a.length)).length ≤ b.length := by simp
          simp at h2 hc
          exact chunkedLoop_fuel cfg f2 m p c evs (by omega) (by omega)
        rw [chunkEofStep_agree cfg _ _ _ hk _ _ _ (Nat.le_refl _)]
        exact prel_of_acc _ (chunkEofStep_acc cfg _ (chunkedLoop_acc cfg m)) _ _ _ _ (by simp only [proj_append, proj_dataEv, List.map_append, List.append_assoc])

theorem trailersStep_split (cfg : Cfg) (f1 : Nat) (ih : SplitAt cfg f1)
    (p : PState) (a b : Bytes) (evs : List Ev) (p' : PState) (evs' : List Ev) (f2 f3 : Nat)
    (ha : a.length ≤ f1) (ht : p.tail = []) (hcs : p.cstate = .trailers) (hb : b ≠ [])
    (h : trailersStep cfg (chunkedLoop cfg f1) p a evs = (.needs p', evs'))
    (h2 : (a ++ b).length ≤ f2) (h3 : (p'.tail ++ b).length < f3) :
    PRel (trailersStep cfg (chunkedLoop cfg f2) p (a ++ b) evs)
      (chunkedLoop cfg f3 { p' with tail := [] } (p'.tail ++ b) evs') := by
  unfold trailersStep at h
  cases hf : findSep cfg.lax a with
  | none =>
    simp only [hf] at h
    split at h
    · cases h
    · injection h with h1 h2'
      injection h1 with h1
      subst h1; subst h2'
      exact split_base cfg (trailersStep cfg) (fun k1 k2 m hk p c evs hc => trailersStep_agree cfg k1 k2 m hk p c evs hc)
        .trailers (chunkedLoop_trailers cfg) p a b evs f2 f3 ht hcs hb h2 (by simpa using h3)
  | some pos =>
    have hbd := findSep_bound cfg.lax a pos hf
    have hsl := sepLen_pos cfg.lax
    simp only [hf] at h
    unfold trailersStep
    rw [findSep_append_stable cfg.lax a b pos hf]
    simp only []
    rw [take_append_of_le a b pos (by omega), drop_append_of_le a b _ hbd]
    split at h
    · cases h
    · next c1 =>
      rw [if_neg c1]
      split at h
      · cases h
      · next c2 =>
        rw [if_neg c2]
        split at h
        · split at h <;> cases h
        · next c3 =>
          rw [if_neg c3]
          exact ih _ _ b evs p' evs' f2 f3 (by simp; omega) (by simpa using ht) hb h (by simp at h2 ⊢; omega) h3

end Aio.Http

namespace Aio.Http
open Aio

theorem sizeStep_split (cfg : Cfg) (f1 : Nat) (ih : SplitAt cfg f1)
    (p : PState) (a b : Bytes) (evs : List Ev) (p' : PState) (evs' : List Ev) (f2 f3 : Nat)
    (ha : a.length ≤ f1) (ht : p.tail = []) (hcs : p.cstate = .size) (hb : b ≠ [])
    (h : sizeStep cfg (chunkedLoop cfg f1) p a evs = (.needs p', evs'))
    (h2 : (a ++ b).length ≤ f2) (h3 : (p'.tail ++ b).length < f3) :
    PRel (sizeStep cfg (chunkedLoop cfg f2) p (a ++ b) evs)
      (chunkedLoop cfg f3 { p' with tail := [] } (p'.tail ++ b) evs') := by
  unfold sizeStep at h
  cases hf : findSep cfg.lax a with
  | none =>
    simp only [hf] at h
    split at h
    · cases h
    · injection h with h1 h2'
      injection h1 with h1
      subst h1; subst h2'
      exact split_base cfg (sizeStep cfg) (fun k1 k2 m hk p c evs hc => sizeStep_agree cfg k1 k2 m hk p c evs hc)
        .size (chunkedLoop_size cfg) p a b evs f2 f3 ht hcs hb h2 (by simpa using h3)
  | some pos =>
    have hbd := findSep_bound cfg.lax a pos hf
    have hsl := sepLen_pos cfg.lax
    simp only [hf] at h
    unfold sizeStep
    rw [findSep_append_stable cfg.lax a b pos hf]
    simp only []
    rw [take_append_of_le a b pos (by omega), drop_append_of_le a b _ hbd]
    split at h
    · cases h
    · next c1 =>
      rw [if_neg c1]
      cases hsz : chunkSizeOf cfg (a.take pos) with
      | none => simp [hsz] at h
      | some size =>
        simp only [hsz] at h ⊢
        split at h
        · next c2 =>
          rw [if_pos c2]
          exact trailersStep_split cfg f1 ih _ _ b evs p' evs' f2 f3 (by simp; omega) (by simpa using ht) rfl hb h
            (by simp at h2 ⊢; omega) h3
        · next c2 =>
          rw [if_neg c2]
          exact chunkStep_split cfg f1 ih _ _ b _ p' evs' f2 f3 (by simp; omega) (by simpa using ht) rfl hb h
            (by simp at h2 ⊢; omega) h3

/-- **the cut law for the chunked loop** -/
theorem chunkedLoop_split (cfg : Cfg) : ∀ f1, SplitAt cfg f1 := by
  intro f1
  induction f1 with
  | zero => intro p a b evs p' evs' f2 f3 h; omega
  | succ n ih =>
    intro p a b evs p' evs' f2 f3 hlen ht hb h h2 h3
    by_cases ha : a = []
    · subst ha
      simp [chunkedLoop] at h
      obtain ⟨h1, h2'⟩ := h
      subst h1; subst h2'
      simp only [ht, List.nil_append] at h2 h3 ⊢
      rw [pstate_tail_eta p ht, chunkedLoop_fuel cfg f2 f3 p b evs h2 h3]
      exact PRel.rfl' _
    · cases f2 with
      | zero => omega
      | succ m =>
        have hab : a ++ b ≠ [] := by cases a <;> simp_all
        have hl2 : (a ++ b).length ≤ m := by omega
        have hl1 : a.length ≤ n := by omega
        cases hcs : p.cstate with
        | size =>
          rw [chunkedLoop_size cfg n p a evs ha hcs] at h
          rw [chunkedLoop_size cfg m p _ evs hab hcs]
          exact sizeStep_split cfg n ih p a b evs p' evs' m f3 hl1 ht hcs hb h hl2 h3
        | chunk =>
          rw [chunkedLoop_chunk cfg n p a evs ha hcs] at h
          rw [chunkedLoop_chunk cfg m p _ evs hab hcs]
          exact chunkStep_split cfg n ih p a b evs p' evs' m f3 hl1 ht hcs hb h hl2 h3
        | chunkEof =>
          rw [chunkedLoop_eof cfg n p a evs ha hcs] at h
          rw [chunkedLoop_eof cfg m p _ evs hab hcs]
          exact chunkEofStep_split cfg n ih p a b evs p' evs' m f3 hl1 ht hcs hb h hl2 h3
        | trailers =>
          rw [chunkedLoop_trailers cfg n p a evs ha hcs] at h
          rw [chunkedLoop_trailers cfg m p _ evs hab hcs]
          exact trailersStep_split cfg n ih p a b evs p' evs' m f3 hl1 ht hcs hb h hl2 h3

end Aio.Http

namespace Aio.Http
open Aio

/-! ### a completed body stays completed when more bytes follow -/

def CompleteAt (cfg : Cfg) (f1 : Nat) : Prop :=
  ∀ (p : PState) (a b : Bytes) (evs : List Ev) (rest : Bytes) (evs' : List Ev) (f2 : Nat),
    a.length < f1 → chunkedLoop cfg f1 p a evs = (.complete rest, evs') → (a ++ b).length < f2 →
    chunkedLoop cfg f2 p (a ++ b) evs = (.complete (rest ++ b), evs')

theorem chunkEofStep_complete (cfg : Cfg) (f1 : Nat) (ih : CompleteAt cfg f1)
    (p : PState) (a b : Bytes) (evs : List Ev) (rest : Bytes) (evs' : List Ev) (f2 : Nat)
    (ha : a.length ≤ f1)
    (h : chunkEofStep cfg (chunkedLoop cfg f1) p a evs = (.complete rest, evs'))
    (h2 : (a ++ b).length ≤ f2) :
    chunkEofStep cfg (chunkedLoop cfg f2) p (a ++ b) evs = (.complete (rest ++ b), evs') := by
  unfold chunkEofStep at h
  simp only [] at h
  split at h
  · next hsep =>
    have hn := le_of_take_beq _ _ _ hsep (sepBytes_length cfg.lax)
    have hane : a ≠ [] := by
      intro h0; subst h0
      have h00 : (skipCR cfg.lax []).length ≤ 0 := skipCR_length_le cfg.lax []
      have := sepLen_pos cfg.lax
      omega
    have hlt := drop_lt_of_take_eq _ _ _ (sepLen_pos cfg.lax) (sepBytes_ne cfg.lax) hsep
    rw [List.length_drop] at hlt
    have hle := skipCR_length_le cfg.lax a
    unfold chunkEofStep
    simp only []
    rw [skipCR_append cfg.lax a b hane, take_append_of_le _ b _ hn, drop_append_of_le _ b _ hn]
    simp only [hsep, if_true]
    exact ih _ _ b evs rest evs' f2 (by rw [List.length_drop]; omega) h (by simp at h2 ⊢; omega)
  · split at h <;> cases h

theorem chunkStep_complete (cfg : Cfg) (f1 : Nat) (ih : CompleteAt cfg f1)
    (p : PState) (a b : Bytes) (evs : List Ev) (rest : Bytes) (evs' : List Ev) (f2 : Nat)
    (ha : a.length ≤ f1)
    (h : chunkStep cfg (chunkedLoop cfg f1) p a evs = (.complete rest, evs'))
    (h2 : (a ++ b).length ≤ f2) :
    chunkStep cfg (chunkedLoop cfg f2) p (a ++ b) evs = (.complete (rest ++ b), evs') := by
  unfold chunkStep at h
  simp only [] at h
  by_cases hz : p.chunkSize - a.length = 0
  · have hle : p.chunkSize ≤ a.length := by omega
    simp only [hz, bne_self_eq_false, Bool.false_eq_true, if_false] at h
    unfold chunkStep
    have hz' : p.chunkSize - (a ++ b).length = 0 := by simp; omega
    simp only [hz', bne_self_eq_false, Bool.false_eq_true, if_false]
    rw [take_append_of_le a b _ hle, drop_append_of_le a b _ hle]
    exact chunkEofStep_complete cfg f1 ih _ (a.drop p.chunkSize) b _ rest evs' f2 (by simp; omega) h
      (by simp at h2 ⊢; omega)
  · have hne : (p.chunkSize - a.length != 0) = true := by simpa using hz
    simp only [hne, if_true] at h
    cases h

theorem trailersStep_complete (cfg : Cfg) (f1 : Nat) (ih : CompleteAt cfg f1)
    (p : PState) (a b : Bytes) (evs : List Ev) (rest : Bytes) (evs' : List Ev) (f2 : Nat)
    (ha : a.length ≤ f1)
    (h : trailersStep cfg (chunkedLoop cfg f1) p a evs = (.complete rest, evs'))
    (h2 : (a ++ b).length ≤ f2) :
    trailersStep cfg (chunkedLoop cfg f2) p (a ++ b) evs = (.complete (rest ++ b), evs') := by
  unfold trailersStep at h
  cases hf : findSep cfg.lax a with
  | none =>
    simp only [hf] at h
    split at h <;> cases h
  | some pos =>
    have hbd := findSep_bound cfg.lax a pos hf
    have hsl := sepLen_pos cfg.lax
    simp only [hf] at h
    unfold trailersStep
    rw [findSep_append_stable cfg.lax a b pos hf]
    simp only []
    rw [take_append_of_le a b pos (by omega), drop_append_of_le a b _ hbd]
    split at h
    · cases h
    · next c1 =>
      rw [if_neg c1]
      split at h
      · cases h
      · next c2 =>
        rw [if_neg c2]
        split at h
        · next c3 =>
          rw [if_pos c3]
          generalize parseHeaders cfg.lax cfg.maxField (p.trailerLines ++ [trailerLine cfg.lax (List.take pos a)]) = r at h ⊢
          cases r with
          | error e => cases h
          | ok v =>
            simp only at h ⊢
            injection h with h1 h2'
            injection h1 with h1
            subst h1; subst h2'
            rfl
        · next c3 =>
          rw [if_neg c3]
          exact ih _ _ b evs rest evs' f2 (by simp; omega) h (by simp at h2 ⊢; omega)

theorem sizeStep_complete (cfg : Cfg) (f1 : Nat) (ih : CompleteAt cfg f1)
    (p : PState) (a b : Bytes) (evs : List Ev) (rest : Bytes) (evs' : List Ev) (f2 : Nat)
    (ha : a.length ≤ f1)
    (h : sizeStep cfg (chunkedLoop cfg f1) p a evs = (.complete rest, evs'))
    (h2 : (a ++ b).length ≤ f2) :
    sizeStep cfg (chunkedLoop cfg f2) p (a ++ b) evs = (.complete (rest ++ b), evs') := by
  unfold sizeStep at h
  cases hf : findSep cfg.lax a with
  | none =>
    simp only [hf] at h
    split at h <;> cases h
  | some pos =>
    have hbd := findSep_bound cfg.lax a pos hf
    have hsl := sepLen_pos cfg.lax
    simp only [hf] at h
    unfold sizeStep
    rw [findSep_append_stable cfg.lax a b pos hf]
    simp only []
    rw [take_append_of_le a b pos (by omega), drop_append_of_le a b _ hbd]
    split at h
    · cases h
    · next c1 =>
      rw [if_neg c1]
      cases hsz : chunkSizeOf cfg (a.take pos) with
      | none => simp [hsz] at h
      | some size =>
        simp only [hsz] at h ⊢
        split at h
        · next c2 =>
          rw [if_pos c2]
          exact trailersStep_complete cfg f1 ih _ _ b evs rest evs' f2 (by simp; omega) h (by simp at h2 ⊢; omega)
        · next c2 =>
          rw [if_neg c2]
          exact chunkStep_complete cfg f1 ih _ _ b _ rest evs' f2 (by simp; omega) h (by simp at h2 ⊢; omega)

theorem chunkedLoop_complete (cfg : Cfg) : ∀ f1, CompleteAt cfg f1 := by
  intro f1
  induction f1 with
  | zero => intro p a b evs rest evs' f2 h; omega
  | succ n ih =>
    intro p a b evs rest evs' f2 hlen h h2
    by_cases ha : a = []
    · subst ha; simp [chunkedLoop] at h
    · cases f2 with
      | zero => omega
      | succ m =>
        have hab : a ++ b ≠ [] := by cases a <;> simp_all
        have hl2 : (a ++ b).length ≤ m := by omega
        have hl1 : a.length ≤ n := by omega
        cases hcs : p.cstate with
        | size =>
          rw [chunkedLoop_size cfg n p a evs ha hcs] at h
          rw [chunkedLoop_size cfg m p _ evs hab hcs]
          exact sizeStep_complete cfg n ih p a b evs rest evs' m hl1 h hl2
        | chunk =>
          rw [chunkedLoop_chunk cfg n p a evs ha hcs] at h
          rw [chunkedLoop_chunk cfg m p _ evs hab hcs]
          exact chunkStep_complete cfg n ih p a b evs rest evs' m hl1 h hl2
        | chunkEof =>
          rw [chunkedLoop_eof cfg n p a evs ha hcs] at h
          rw [chunkedLoop_eof cfg m p _ evs hab hcs]
          exact chunkEofStep_complete cfg n ih p a b evs rest evs' m hl1 h hl2
        | trailers =>
          rw [chunkedLoop_trailers cfg n p a evs ha hcs] at h
          rw [chunkedLoop_trailers cfg m p _ evs hab hcs]
          exact trailersStep_complete cfg n ih p a b evs rest evs' m hl1 h hl2

end Aio.Http

namespace Aio.Http
open Aio

/-! ### where a completed body ends: right after a line feed -/

theorem findByte_get (c : UInt8) (a : Bytes) (p : Nat) (h : findByte c a = some p) : a[p]? = some c := by
  induction a generalizing p with
  | nil => simp [findByte] at h
  | cons x t ih =>
    simp only [findByte] at h
    split at h
    · next hx => simp at h; subst h; simp [hx]
    · simp at h; obtain ⟨q, hq, rfl⟩ := h; simpa using ih q hq

theorem findCRLF_get (a : Bytes) (p : Nat) (h : findCRLF a = some p) : a[p + 1]? = some 10 := by
  induction a generalizing p with
  | nil => simp [findCRLF] at h
  | cons x t ih =>
    cases t with
    | nil => simp [findCRLF] at h
    | cons y t' =>
      simp only [findCRLF] at h
      split at h
      · next hx => simp at h; subst h; simp [hx.2]
      · simp at h; obtain ⟨q, hq, rfl⟩ := h; simpa using ih q hq

theorem findSep_get (lax : Bool) (a : Bytes) (p : Nat) (h : findSep lax a = some p) :
    a[p + sepLen lax - 1]? = some 10 := by
  unfold findSep at h; unfold sepLen
  cases lax
  · simpa using findCRLF_get a p (by simpa using h)
  · simpa using findByte_get 10 a p (by simpa using h)

/-- `rest` is what is left of `c` after a prefix that ends with LF -/
def SuffPos (c rest : Bytes) : Prop := ∃ k, 0 < k ∧ k ≤ c.length ∧ rest = c.drop k ∧ c[k - 1]? = some 10

theorem suffPos_drop (c rest : Bytes) (j : Nat) (h : SuffPos (c.drop j) rest) : SuffPos c rest := by
  obtain ⟨k, hk0, hkl, hr, hg⟩ := h
  refine ⟨j + k, by omega, ?_, ?_, ?_⟩
  · simp at hkl; omega
  · rw [hr, List.drop_drop]
  · rw [List.getElem?_drop] at hg
    have : j + k - 1 = j + (k - 1) := by omega
    rw [this]; exact hg

theorem skipCR_eq_drop (lax : Bool) (c : Bytes) : ∃ j, skipCR lax c = c.drop j := by
  unfold skipCR
  split
  · split
    · exact ⟨1, rfl⟩
    · exact ⟨0, rfl⟩
  · exact ⟨0, rfl⟩

def CompletePos (cfg : Cfg) (f : Nat) : Prop :=
  ∀ (p : PState) (c : Bytes) (evs : List Ev) (rest : Bytes) (evs' : List Ev),
    chunkedLoop cfg f p c evs = (.complete rest, evs') → SuffPos c rest

def KPos (k : LoopK) : Prop := ∀ p c evs rest evs', k p c evs = (.complete rest, evs') → SuffPos c rest

theorem chunkEofStep_pos (cfg : Cfg) (k : LoopK) (hk : KPos k) : KPos (chunkEofStep cfg k) := by
  intro p c evs rest evs' h
  unfold chunkEofStep at h
  simp only [] at h
  split at h
  · obtain ⟨j, hj⟩ := skipCR_eq_drop cfg.lax c
    have := hk _ _ _ _ _ h
    rw [hj] at this
    exact suffPos_drop c rest j (suffPos_drop _ rest _ this)
  · split at h <;> cases h

theorem chunkStep_pos (cfg : Cfg) (k : LoopK) (hk : KPos k) : KPos (chunkStep cfg k) := by
  intro p c evs rest evs' h
  unfold chunkStep at h
  simp only [] at h
  split at h
  · cases h
  · exact suffPos_drop c rest _ (chunkEofStep_pos cfg k hk _ _ _ _ _ h)

theorem trailersStep_pos (cfg : Cfg) (k : LoopK) (hk : KPos k) : KPos (trailersStep cfg k) := by
  intro p c evs rest evs' h
  unfold trailersStep at h
  cases hf : findSep cfg.lax c with
  | none => simp only [hf] at h; split at h <;> cases h
  | some pos =>
    have hbd := findSep_bound cfg.lax c pos hf
    have hsl := sepLen_pos cfg.lax
    have hg := findSep_get cfg.lax c pos hf
    simp only [hf] at h
    split at h
    · cases h
    · split at h
      · cases h
      · split at h
        · split at h
          · cases h
          · injection h with h1 h2
            injection h1 with h1
            exact ⟨pos + sepLen cfg.lax, by omega, hbd, h1.symm, hg⟩
        · exact suffPos_drop c rest _ (hk _ _ _ _ _ h)

theorem sizeStep_pos (cfg : Cfg) (k : LoopK) (hk : KPos k) : KPos (sizeStep cfg k) := by
  intro p c evs rest evs' h
  unfold sizeStep at h
  cases hf : findSep cfg.lax c with
  | none => simp only [hf] at h; split at h <;> cases h
  | some pos =>
    simp only [hf] at h
    split at h
    · cases h
    · cases hsz : chunkSizeOf cfg (c.take pos) with
      | none => simp [hsz] at h
      | some size =>
        simp only [hsz] at h
        split at h
        · exact suffPos_drop c rest _ (trailersStep_pos cfg k hk _ _ _ _ _ h)
        · exact suffPos_drop c rest _ (chunkStep_pos cfg k hk _ _ _ _ _ h)

theorem chunkedLoop_pos (cfg : Cfg) : ∀ f, KPos (chunkedLoop cfg f) := by
  intro f
  induction f with
  | zero => intro p c evs rest evs' h; simp [chunkedLoop] at h
  | succ n ih =>
    intro p c evs rest evs' h
    rw [chunkedLoop] at h
    split at h
    · cases h
    · cases hcs : p.cstate with
      | size => simp only [hcs] at h; exact sizeStep_pos cfg _ ih _ _ _ _ _ h
      | chunk => simp only [hcs] at h; exact chunkStep_pos cfg _ ih _ _ _ _ _ h
      | chunkEof => simp only [hcs] at h; exact chunkEofStep_pos cfg _ ih _ _ _ _ _ h
      | trailers => simp only [hcs] at h; exact trailersStep_pos cfg _ ih _ _ _ _ _ h

end Aio.Http

namespace Aio.Http
open Aio

/-! ### what a saved state looks like: its tail holds no line feed -/

def KNeeds (m : Nat) (k : LoopK) : Prop :=
  ∀ p c evs p' evs', c.length < m → p.tail = [] → k p c evs = (.needs p', evs') →
    10 ∉ p'.tail ∧ p'.type = p.type

theorem not_mem_of_any_false (c : Bytes) (h : ¬ (c.any (· == 10)) = true) : (10 : UInt8) ∉ c := by
  intro hm
  apply h
  simp only [List.any_eq_true]
  exact ⟨10, hm, by simp⟩

theorem skipCR_cons13 (t : Bytes) : skipCR true (13 :: t) = t := by simp [skipCR]
theorem skipCR_cons_ne (x : UInt8) (t : Bytes) (hx : x ≠ 13) : skipCR true (x :: t) = x :: t := by
  unfold skipCR
  simp only [if_true]
  split
  · next heq => simp at heq; exact absurd heq.1 hx
  · rfl
theorem skipCR_strict (c : Bytes) : skipCR false c = c := by simp [skipCR]

theorem eof_tail_no_lf (lax : Bool) (c : Bytes)
    (h : ¬ ((decide ((skipCR lax c).length ≥ sepLen lax) || (skipCR lax c) != (sepBytes lax).take (skipCR lax c).length) = true)) :
    (10 : UInt8) ∉ c := by
  simp only [Bool.or_eq_true, decide_eq_true_eq, not_or, bne_iff_ne, ne_eq, Decidable.not_not] at h
  obtain ⟨h1, h2⟩ := h
  cases lax
  · rw [skipCR_strict] at h1 h2
    simp only [sepLen, sepBytes, Bool.false_eq_true, if_false] at h1 h2
    match c, h1, h2 with
    | [], _, _ => simp
    | [x], _, h2 => simp at h2; subst h2; simp
    | _ :: _ :: _, h1, _ => simp at h1
  · simp only [sepLen, if_true] at h1
    cases c with
    | nil => simp
    | cons x t =>
      by_cases hx : x = 13
      · subst hx
        rw [skipCR_cons13] at h1
        have : t = [] := by cases t <;> simp_all
        subst this; simp
      · rw [skipCR_cons_ne x t hx] at h1
        simp at h1

theorem chunkEofStep_needs (cfg : Cfg) (m : Nat) (k : LoopK) (hk : KNeeds m k)
    (p : PState) (c : Bytes) (evs : List Ev) (p' : PState) (evs' : List Ev) (hc : c.length ≤ m) (ht : p.tail = [])
    (h : chunkEofStep cfg k p c evs = (.needs p', evs')) : 10 ∉ p'.tail ∧ p'.type = p.type := by
  unfold chunkEofStep at h
  simp only [] at h
  split at h
  · next hsep =>
    have hlt := drop_lt_of_take_eq _ _ _ (sepLen_pos cfg.lax) (sepBytes_ne cfg.lax) hsep
    have hle := skipCR_length_le cfg.lax c
    rw [List.length_drop] at hlt
    have r := hk _ _ _ _ _ (by rw [List.length_drop]; omega) (by simpa using ht) h
    exact ⟨r.1, r.2⟩
  · split at h
    · cases h
    · next hn =>
      injection h with h1 h2
      injection h1 with h1
      subst h1
      exact ⟨eof_tail_no_lf cfg.lax c hn, rfl⟩

theorem chunkStep_needs (cfg : Cfg) (m : Nat) (k : LoopK) (hk : KNeeds m k)
    (p : PState) (c : Bytes) (evs : List Ev) (p' : PState) (evs' : List Ev) (hc : c.length ≤ m) (ht : p.tail = [])
    (h : chunkStep cfg k p c evs = (.needs p', evs')) : 10 ∉ p'.tail ∧ p'.type = p.type := by
  unfold chunkStep at h
  simp only [] at h
  split at h
  · injection h with h1 h2
    injection h1 with h1
    subst h1
    simp [ht]
  · have r := chunkEofStep_needs cfg m k hk _ _ _ _ _ (by simp; omega) (by simpa using ht) h
    exact ⟨r.1, r.2⟩

theorem trailersStep_needs (cfg : Cfg) (m : Nat) (k : LoopK) (hk : KNeeds m k)
    (p : PState) (c : Bytes) (evs : List Ev) (p' : PState) (evs' : List Ev) (hc : c.length ≤ m) (ht : p.tail = [])
    (h : trailersStep cfg k p c evs = (.needs p', evs')) : 10 ∉ p'.tail ∧ p'.type = p.type := by
  unfold trailersStep at h
  cases hf : findSep cfg.lax c with
  | none =>
    simp only [hf] at h
    split at h
    · cases h
    · next hn =>
      injection h with h1 h2
      injection h1 with h1
      subst h1
      exact ⟨not_mem_of_any_false c hn, rfl⟩
  | some pos =>
    have hbd := findSep_bound cfg.lax c pos hf
    have hsl := sepLen_pos cfg.lax
    simp only [hf] at h
    split at h
    · cases h
    · split at h
      · cases h
      · split at h
        · split at h <;> cases h
        · have r := hk _ _ _ _ _ (by simp; omega) (by simpa using ht) h
          exact ⟨r.1, r.2⟩

theorem sizeStep_needs (cfg : Cfg) (m : Nat) (k : LoopK) (hk : KNeeds m k)
    (p : PState) (c : Bytes) (evs : List Ev) (p' : PState) (evs' : List Ev) (hc : c.length ≤ m) (ht : p.tail = [])
    (h : sizeStep cfg k p c evs = (.needs p', evs')) : 10 ∉ p'.tail ∧ p'.type = p.type := by
  unfold sizeStep at h
  cases hf : findSep cfg.lax c with
  | none =>
    simp only [hf] at h
    split at h
    · cases h
    · next hn =>
      injection h with h1 h2
      injection h1 with h1
      subst h1
      exact ⟨not_mem_of_any_false c hn, rfl⟩
  | some pos =>
    have hbd := findSep_bound cfg.lax c pos hf
    have hsl := sepLen_pos cfg.lax
    simp only [hf] at h
    split at h
    · cases h
    · cases hsz : chunkSizeOf cfg (c.take pos) with
      | none => simp [hsz] at h
      | some size =>
        simp only [hsz] at h
        split at h
        · have r := trailersStep_needs cfg m k hk _ _ _ _ _ (by simp; omega) (by simpa using ht) h
          exact ⟨r.1, r.2⟩
        · have r := chunkStep_needs cfg m k hk _ _ _ _ _ (by simp; omega) (by simpa using ht) h
          exact ⟨r.1, r.2⟩

theorem chunkedLoop_needs (cfg : Cfg) : ∀ f, KNeeds f (chunkedLoop cfg f) := by
  intro f
  induction f with
  | zero => intro p c evs p' evs' hc; omega
  | succ n ih =>
    intro p c evs p' evs' hc ht h
    rw [chunkedLoop] at h
    split at h
    · injection h with h1 h2
      injection h1 with h1
      subst h1
      simp [ht]
    · have hcn : c.length ≤ n := by omega
      cases hcs : p.cstate with
      | size => simp only [hcs] at h; exact sizeStep_needs cfg n _ ih _ _ _ _ _ hcn ht h
      | chunk => simp only [hcs] at h; exact chunkStep_needs cfg n _ ih _ _ _ _ _ hcn ht h
      | chunkEof => simp only [hcs] at h; exact chunkEofStep_needs cfg n _ ih _ _ _ _ _ hcn ht h
      | trailers => simp only [hcs] at h; exact trailersStep_needs cfg n _ ih _ _ _ _ _ hcn ht h

end Aio.Http

namespace Aio.Http
open Aio

/-! ## the body-parser laws for every body, and the two-cut theorem without exceptions -/

/-- body-parser states as the parser creates and saves them: a chunked body's buffered partial
line holds no line feed; a Content-Length body has bytes left -/
def AnyBody (p : PState) : Prop :=
  (p.type = .chunked → (10 : UInt8) ∉ p.tail) ∧ (p.type = .length → p.length ≠ 0)

/-- the saved chunked-body state does not trip the early length check of the next call -/
def TailOk (cfg : Cfg) (p : PState) : Prop := p.type = .chunked → chunkTailTooLong cfg p = false

theorem payloadFeed_chunked (cfg : Cfg) (p : PState) (a : Bytes) (hp : p.type = .chunked) :
    payloadFeed cfg p a =
      if chunkTailTooLong cfg p then (.err .lineTooLong false, [])
      else chunkedLoop cfg ((p.tail ++ a).length + 1) { p with tail := [] } (p.tail ++ a) [] := by
  unfold payloadFeed
  simp [hp]

theorem nonChunked_of_anyBody (p : PState) (h : AnyBody p) (hp : p.type ≠ .chunked) : NonChunked p :=
  ⟨hp, h.2⟩

theorem payloadLaws_all (cfg : Cfg) : PayloadLaws cfg AnyBody (TailOk cfg) := by
  refine ⟨?_, ?_, ?_, ?_⟩
  · -- complete_stable
    intro p a b rest ev hg h
    by_cases hp : p.type = .chunked
    · rw [payloadFeed_chunked cfg p _ hp] at h ⊢
      split at h
      · cases h
      · next hc =>
        rw [if_neg hc]
        rw [← List.append_assoc]
        exact chunkedLoop_complete cfg _ _ _ b _ _ _ ((p.tail ++ a ++ b).length + 1) (Nat.lt_succ_self _) h
          (Nat.lt_succ_self _)
    · exact (payloadLaws_nonChunked cfg).complete_stable p a b rest ev (nonChunked_of_anyBody p hg hp) h
  · -- complete_shrinks
    intro p a rest ev hg ha h
    by_cases hp : p.type = .chunked
    · rw [payloadFeed_chunked cfg p _ hp] at h
      split at h
      · cases h
      · obtain ⟨k, hk0, hkl, hr, hget⟩ := chunkedLoop_pos cfg _ _ _ _ _ _ h
        have hnot := hg.1 hp
        have hk : p.tail.length ≤ k - 1 := by
          apply Nat.le_of_not_lt
          intro hlt
          rw [List.getElem?_append_left hlt] at hget
          exact hnot (List.mem_of_getElem? hget)
        rw [hr]
        simp at hkl ⊢
        omega
    · exact (payloadLaws_nonChunked cfg).complete_shrinks p a rest ev (nonChunked_of_anyBody p hg hp) ha h
  · -- needs_closed
    intro p p' a ev hg h
    by_cases hp : p.type = .chunked
    · rw [payloadFeed_chunked cfg p _ hp] at h
      split at h
      · cases h
      · have := chunkedLoop_needs cfg _ _ _ _ _ _ (Nat.lt_succ_self _) rfl h
        simp only [] at this
        refine ⟨fun _ => this.1, fun hl => ?_⟩
        rw [this.2, hp] at hl
        cases hl
    · have := (payloadLaws_nonChunked cfg).needs_closed p p' a ev (nonChunked_of_anyBody p hg hp) h
      exact ⟨fun hc => absurd hc this.1, this.2⟩
  · -- needs_split
    intro p p' a b ev1 hg h hadm hb
    by_cases hp : p.type = .chunked
    · rw [payloadFeed_chunked cfg p _ hp] at h ⊢
      split at h
      · cases h
      · next hc =>
        rw [if_neg hc]
        have hinv := chunkedLoop_needs cfg _ _ _ _ _ _ (Nat.lt_succ_self _) rfl h
        simp only [] at hinv
        have hp' : p'.type = .chunked := by rw [hinv.2, hp]
        rw [payloadFeed_chunked cfg p' _ hp', hadm hp']
        simp only [Bool.false_eq_true, if_false]
        rw [← List.append_assoc]
        have hs := chunkedLoop_split cfg _ _ (p.tail ++ a) b [] p' ev1
          ((p.tail ++ a ++ b).length + 1) ((p'.tail ++ b).length + 1)
          (Nat.lt_succ_self _) rfl hb h (Nat.lt_succ_self _) (Nat.lt_succ_self _)
        rw [chunkedLoop_acc cfg _ _ _ ev1] at hs
        exact ⟨hs.1, by simpa using hs.2⟩
    · exact (payloadLaws_nonChunked cfg).needs_split p p' a b ev1 (nonChunked_of_anyBody p hg hp) h trivial hb

end Aio.Http

namespace Aio.Http
open Aio

/-! ### every body the parser sets up is one the laws cover -/

theorem onHeaderBlock_anyBody (cfg : Cfg) (urlOk : Bool → Bytes → Bool) (st st' : St) (lines : List Bytes)
    (evs : List Ev) (sc : Bool) (h : onHeaderBlock cfg urlOk st lines = .ok (st', evs, sc))
    (hst : StG AnyBody st) : StG AnyBody st' := by
  unfold onHeaderBlock at h
  simp only [] at h
  have huntil : ∀ mt : Nat, AnyBody { type := .untilEof, maxTrailers := mt } := by
    intro mt; refine ⟨fun hc => ?_, fun hc => ?_⟩ <;> cases hc
  repeat' (first | split at h | (dsimp only at h; split at h))
  all_goals try cases h
  all_goals first
    | (intro p hp
       first
         | exact hst p hp
         | (simp only [Option.some.injEq] at hp
            subst hp
            first
              | exact huntil _
              | (refine ⟨fun _ => by simp, fun hc => ?_⟩
                 first
                   | (intro hz; simp_all)
                   | cases hc)))

theorem stepOnce_cont_anyBody (cfg : Cfg) (urlOk : Bool → Bytes → Bool) (st st' : St) (d d' : Bytes) (ev : List Ev)
    (h : stepOnce cfg urlOk st d = .cont st' d' ev) (hst : StG AnyBody st) : StG AnyBody st' := by
  cases hp : st.payload with
  | some p =>
    rw [stepOnce_payload cfg urlOk st p d hp] at h
    rcases hpf : payloadFeed cfg p d with ⟨r, pev⟩
    rw [hpf] at h
    cases r with
    | needs p' => cases h
    | err e rr => cases rr <;> cases h
    | complete rest =>
      simp only [] at h
      injection h with h1 _ _
      subst h1
      intro q hq
      unfold afterBody at hq
      simp only [] at hq
      split at hq <;> cases hq
  | none =>
    unfold stepOnce at h
    simp only [hp] at h
    repeat' (first | split at h | (dsimp only at h; split at h))
    all_goals try cases h
    all_goals first
      | exact hst
      | exact (fun q hq => hst q hq)
      | (rename_i hob
         have := onHeaderBlock_anyBody cfg urlOk _ _ _ _ _ hob hst
         exact (fun q hq => this q hq))
      | exact (fun q hq => by cases hq)

theorem goodRun_anyBody (cfg : Cfg) (urlOk : Bool → Bytes → Bool) :
    ∀ (f : Nat) (st : St) (d : Bytes), StG AnyBody st → GoodRun cfg urlOk AnyBody f st d := by
  intro f
  induction f with
  | zero => intro st d _; trivial
  | succ n ih =>
    intro st d hst
    unfold GoodRun
    by_cases hd : d = []
    · exact Or.inl hd
    · refine Or.inr ⟨hst, ?_⟩
      cases hs : stepOnce cfg urlOk st d with
      | stop o => trivial
      | cont st' d' ev => exact ih st' d' (stepOnce_cont_anyBody cfg urlOk st st' d d' ev hs hst)

/-- **Two-cut theorem, every framing.** From any parser state whose body parser (if one is
active) is in a state the parser itself can have produced: processing `a` and then carrying on
from the saved state with `tail ++ b` is observably the same as processing `a ++ b` at once —
same final state (or both failed), same error, same bytes handed back, same events up to the
grouping of body bytes — provided the first part ended without an error and, when it stopped
inside a chunked body, its buffered partial chunk-size/trailer line does not already exceed the
line limit (the one place where `feed_data` looks at its buffer before new bytes arrive). -/
theorem feedLoop_append_all (cfg : Cfg) (urlOk : Bool → Bytes → Bool)
    (f1 : Nat) (st : St) (a b : Bytes) (acc : List Ev) (hf1 : a.length < f1) (ht : st.tail = [])
    (hst : StG AnyBody st)
    (he : (feedLoop cfg urlOk f1 st a acc).err = none)
    (hr : (feedLoop cfg urlOk f1 st a acc).rest = [])
    (hpe : ∀ e, Ev.payloadErr e ∉ (feedLoop cfg urlOk f1 st a acc).evs)
    (hadm : ∀ p', (feedLoop cfg urlOk f1 st a acc).st.payload = some p' → TailOk cfg p')
    (f2 f3 : Nat) (hf2 : ((feedLoop cfg urlOk f1 st a acc).st.tail ++ b).length < f2)
    (hf3 : (a ++ b).length < f3) :
    Equiv (feedLoop cfg urlOk f3 st (a ++ b) acc)
          (feedLoop cfg urlOk f2 { (feedLoop cfg urlOk f1 st a acc).st with tail := [] }
            ((feedLoop cfg urlOk f1 st a acc).st.tail ++ b) (feedLoop cfg urlOk f1 st a acc).evs) :=
  feedLoop_append cfg urlOk (payloadLaws_all cfg) f1 st a b acc hf1 ht
    (fun f => goodRun_anyBody cfg urlOk f st (a ++ b) hst) he hr hpe hadm f2 f3 hf2 hf3

end Aio.Http

namespace Aio.Http
open Aio

/-- **Two reads are one read** (`HttpParser.feed_data`, every framing). If `feed_data(a)` raises
nothing, hands no bytes back, sets no payload exception and leaves the parser usable, and the
partial chunk-size/trailer line it may have buffered is within the line limit, then
`feed_data(a); feed_data(b)` and `feed_data(a + b)` end in the same parser state (or both
failed), raise the same error, hand back the same bytes and deliver the same events up to the
grouping of body bytes. -/
theorem feed_two_reads (cfg : Cfg) (urlOk : Bool → Bytes → Bool) (st : St) (a b : Bytes)
    (hst : StG AnyBody st) (hf : st.failed = false)
    (he : (feed cfg urlOk st a).err = none) (hr : (feed cfg urlOk st a).rest = [])
    (hpe : ∀ e, Ev.payloadErr e ∉ (feed cfg urlOk st a).evs)
    (hf1 : (feed cfg urlOk st a).st.failed = false)
    (hadm : ∀ p', (feed cfg urlOk st a).st.payload = some p' → TailOk cfg p') :
    let o1 := feed cfg urlOk st a
    let o2 := feed cfg urlOk o1.st b
    let o := feed cfg urlOk st (a ++ b)
    (o.st = o2.st ∨ (o.st.failed = true ∧ o2.st.failed = true)) ∧
      proj o.evs = proj (o1.evs ++ o2.evs) ∧ o.err = o2.err ∧ o.rest = o2.rest := by
  intro o1 o2 o
  have e1 : o1 = feedLoop cfg urlOk ((st.tail ++ a).length + 1) { st with tail := [] } (st.tail ++ a) [] := by
    show feed cfg urlOk st a = _
    unfold feed; simp [hf]
  have eo : o = feedLoop cfg urlOk ((st.tail ++ a ++ b).length + 1) { st with tail := [] } (st.tail ++ a ++ b) [] := by
    show feed cfg urlOk st (a ++ b) = _
    unfold feed; simp [hf]
  have e2 : o2 = feedLoop cfg urlOk ((o1.st.tail ++ b).length + 1) { o1.st with tail := [] } (o1.st.tail ++ b) [] := by
    show feed cfg urlOk o1.st b = _
    unfold feed; simp [show o1.st.failed = false from hf1]
  have hst' : StG AnyBody ({ st with tail := [] } : St) := fun p hp => hst p hp
  have key := feedLoop_append_all cfg urlOk ((st.tail ++ a).length + 1) { st with tail := [] } (st.tail ++ a) b []
    (Nat.lt_succ_self _) rfl hst' (by rw [← e1]; exact he) (by rw [← e1]; exact hr)
    (by rw [← e1]; exact hpe) (by rw [← e1]; exact hadm)
    ((o1.st.tail ++ b).length + 1) ((st.tail ++ a ++ b).length + 1) (by rw [← e1]; exact Nat.lt_succ_self _)
    (Nat.lt_succ_self _)
  rw [← e1, ← eo] at key
  rw [feedLoop_acc cfg urlOk _ _ _ o1.evs, ← e2] at key
  obtain ⟨k1, k2, k3, k4⟩ := key
  exact ⟨k1, by simpa using k2, k3, k4⟩

/-- Non-vacuity (chunked): `POST / HTTP/1.1`, `Host: a`, `Transfer-Encoding: chunked`, then the
chunk `3 CRLF abc CRLF`, cut inside the chunk data after `3 CRLF a`: the first read ends inside a
chunked body with no error and an empty, admissible tail. -/
example :
    let a : Bytes := [80, 79, 83, 84, 32, 47, 32, 72, 84, 84, 80, 47, 49, 46, 49, 13, 10,
      72, 111, 115, 116, 58, 32, 97, 13, 10,
      84, 114, 97, 110, 115, 102, 101, 114, 45, 69, 110, 99, 111, 100, 105, 110, 103, 58, 32, 99, 104, 117, 110, 107, 101, 100, 13, 10,
      13, 10, 51, 13, 10, 97]
    let o := feed {} (fun _ _ => true) {} a
    o.err = none ∧ o.rest = [] ∧ o.st.failed = false ∧
      (o.st.payload.map (fun p => (p.type, p.cstate, p.chunkSize, p.tail, chunkTailTooLong {} p))) =
        some (.chunked, .chunk, 2, [], false) := by
  decide +kernel

end Aio.Http
