import AioProps.C01
/-!
# C01, the other direction: a strict reading is accepted

`accepted_request_is_strict` says that what the parser accepts is a strict RFC 9112 reading.
Here the converse for the strict (server-side) parser: every strict reading — strict request line,
strict field lines, no singleton field twice — whose framing headers are consistent
(`interpretHeaders` succeeds: no Content-Length with Transfer-Encoding, a valid Transfer-Encoding),
whose target yarl accepts and which carries Host on HTTP/1.1 is accepted, and the message
delivered is that reading.  Together: accepted ⇔ strict reading ∧ those side conditions.
-/
namespace Aio.Http
open Aio

theorem tchar_not_colon : isTchar 58 = false := by decide +kernel
theorem tchar_not_sp : isTchar 32 = false := by decide +kernel
theorem tchar_not_ows : ∀ b : UInt8, isTchar b = true → isOWS b = false :=
  forall_uint8 _ (by decide +kernel)

theorem cut1_prefix (c : UInt8) (k rest : Bytes) (h : c ∉ k) : cut1 c (k ++ c :: rest) = some (k, rest) := by
  induction k with
  | nil => simp [cut1]
  | cons b t ih =>
    have hb : b ≠ c := by intro e; subst e; simp at h
    have ht : c ∉ t := by intro e; exact h (List.mem_cons_of_mem _ e)
    simp [cut1, hb, ih ht]

theorem lstrip_all (p : UInt8 → Bool) (l x : Bytes) (hl : l.all p = true) : lstrip p (l ++ x) = lstrip p x := by
  induction l with
  | nil => rfl
  | cons b t ih =>
    simp only [List.all_cons, Bool.and_eq_true] at hl
    simp [lstrip, hl.1, ih hl.2]

theorem lstrip_self (p : UInt8 → Bool) (x : Bytes) (h : ∀ b, x.head? = some b → p b = false) : lstrip p x = x := by
  cases x with
  | nil => rfl
  | cons b t => simp [lstrip, h b rfl]

theorem lstrip_all_nil (p : UInt8 → Bool) (l : Bytes) (hl : l.all p = true) : lstrip p l = [] := by
  have := lstrip_all p l [] hl
  simpa [lstrip] using this

theorem rstrip_all (p : UInt8 → Bool) (x r : Bytes) (hr : r.all p = true) : rstrip p (x ++ r) = rstrip p x := by
  unfold rstrip
  rw [List.reverse_append, lstrip_all p r.reverse x.reverse (by simpa using hr)]

theorem rstrip_self (p : UInt8 → Bool) (x : Bytes) (h : ∀ b, x.getLast? = some b → p b = false) : rstrip p x = x := by
  unfold rstrip
  rw [lstrip_self p x.reverse (by intro b hb; apply h b; simpa [List.head?_reverse] using hb)]
  simp

/-- the value the parser extracts from `OWS value OWS` is `value` -/
theorem value_extracted (l v r : Bytes) (hl : l.all isOWS = true) (hr : r.all isOWS = true)
    (hh : ∀ b, v.head? = some b → isOWS b = false) (ht : ∀ b, v.getLast? = some b → isOWS b = false) :
    strip isOWS (lstrip isOWS (l ++ v ++ r)) = v := by
  rw [List.append_assoc, lstrip_all isOWS l _ hl]
  cases v with
  | nil =>
    simp only [List.nil_append]
    rw [lstrip_all_nil isOWS r hr]
    simp [strip, lstrip, rstrip]
  | cons b t =>
    have hb : isOWS b = false := hh b rfl
    have e1 : lstrip isOWS (b :: t ++ r) = b :: t ++ r := by simp [lstrip, hb]
    rw [e1]
    unfold strip
    rw [e1, rstrip_all isOWS _ r hr, rstrip_self isOWS _ ht]

theorem token_no_colon (k : Bytes) (h : isToken k = true) : (58 : UInt8) ∉ k := by
  intro hm
  unfold isToken at h
  simp only [Bool.and_eq_true, List.all_eq_true] at h
  have := h.2 58 hm
  rw [tchar_not_colon] at this
  cases this

theorem token_ne_nil (k : Bytes) (h : isToken k = true) : k ≠ [] := by
  intro e; subst e; simp [isToken] at h

theorem token_ends_not_ows (k : Bytes) (h : isToken k = true) :
    (isOWS k.head! || isOWS k.getLast!) = false := by
  have hne := token_ne_nil k h
  unfold isToken at h
  simp only [Bool.and_eq_true, List.all_eq_true] at h
  cases k with
  | nil => exact absurd rfl hne
  | cons b t =>
    have h1 : isOWS b = false := tchar_not_ows b (h.2 b (by simp))
    have hl : (b :: t).getLast! ∈ (b :: t) := by
      rw [List.getLast!_eq_getLast?_getD]
      cases hg : (b :: t).getLast? with
      | none => simp at hg
      | some x => simpa using List.mem_of_getLast? hg
    have h2 : isOWS (b :: t).getLast! = false := tchar_not_ows _ (h.2 _ hl)
    rw [Bool.or_eq_false_iff]
    exact ⟨h1, h2⟩

/-- **strict field lines are accepted**, and the header list delivered is their reading -/
theorem parseHeaderLines_complete (mf : Nat) :
    ∀ (fuel : Nat) (lines : List Bytes) (acc hs : List (Bytes × Bytes)),
      lines.length < fuel → FieldsOf lines hs → NoSingletonDup (acc.reverse ++ hs) →
      parseHeaderLines false mf fuel lines acc = .ok (acc.reverse ++ hs) := by
  intro fuel
  induction fuel with
  | zero => intro lines acc hs h; omega
  | succ n ih =>
    intro lines acc hs hlen hf hnd
    cases lines with
    | nil => simp [FieldsOf] at hf; subst hf; simp [parseHeaderLines]
    | cons line rest =>
      simp only [parseHeaderLines]
      by_cases hl : line = []
      · subst hl
        simp [FieldsOf] at hf; subst hf; simp
      · have hle : line.isEmpty = false := by cases line <;> simp_all
        simp only [FieldsOf, hl, if_false] at hf
        obtain ⟨k, v, hs', e, hsf, hrest⟩ := hf
        subst e
        obtain ⟨htok, ⟨l, r, eline, hlo, hro⟩, hvf, hh, ht⟩ := hsf
        have ecut : cut1 58 line = some (k, l ++ v ++ r) := by
          rw [eline]
          have : k ++ [58] ++ l ++ v ++ r = k ++ 58 :: (l ++ v ++ r) := by simp
          rw [this]; exact cut1_prefix 58 k _ (token_no_colon k htok)
        have hkne : k.isEmpty = false := by
          have := token_ne_nil k htok; cases k <;> simp_all
        have hval := value_extracted l v r hlo hro hh ht
        have hdup : (hasName acc (lower k) && isSingleton (lower k)) = false := by
          cases hs : isSingleton (lower k) with
          | false => simp
          | true =>
            cases hn : hasName acc (lower k) with
            | false => simp
            | true =>
              exfalso
              have := hnd (lower k) hs
              unfold hasName at hn
              simp only [List.any_eq_true] at hn
              obtain ⟨kv, hkv, hkve⟩ := hn
              have h1 : 1 ≤ (acc.reverse.filter (fun kv => lower kv.1 == lower k)).length := by
                apply List.length_pos_iff.mpr
                intro he
                have : kv ∈ acc.reverse.filter (fun kv => lower kv.1 == lower k) :=
                  List.mem_filter.mpr ⟨by simpa using hkv, hkve⟩
                rw [he] at this; cases this
              simp only [List.filter_append, List.length_append, List.filter_cons, beq_self_eq_true, if_true,
                List.length_cons] at this
              omega
        have hval' : strip isOWS (lstrip isOWS (l ++ (v ++ r))) = v := by simpa using hval
        have hvf' : ¬ ∃ x, x ∈ v ∧ valueForbidden x = true := by
          intro ⟨x, hx, hxf⟩
          have : v.any valueForbidden = true := List.any_eq_true.mpr ⟨x, hx, hxf⟩
          rw [hvf] at this; cases this
        have hlen' : rest.length < n := by simp at hlen; omega
        have := ih rest ((k, v) :: acc) hs' hlen' hrest (by simpa using hnd)
        simp only [hle, ecut, hkne, token_ends_not_ows k htok, htok, hdup, Bool.false_eq_true, if_false,
          Bool.not_true, Bool.not_false, Bool.true_and]
        simp [hval', hvf']
        simpa using this

theorem parseHeaders_complete (mf : Nat) (lines : List Bytes) (hs : List (Bytes × Bytes))
    (hf : FieldsOf lines hs) (hnd : NoSingletonDup hs) : parseHeaders false mf lines = .ok hs := by
  unfold parseHeaders
  have := parseHeaderLines_complete mf (lines.length + 1) lines [] hs (by omega) hf (by simpa using hnd)
  simpa using this

end Aio.Http

namespace Aio.Http
open Aio

theorem targetForbidden_sp : targetForbidden 32 = true := by decide +kernel

theorem splitRequestLine_complete (m target v : Bytes) (hm : isToken m = true)
    (ht : target.any targetForbidden = false) :
    splitRequestLine (m ++ [32] ++ target ++ [32] ++ v) = some (m, target, v) := by
  have hm32 : (32 : UInt8) ∉ m := by
    intro hmem
    unfold isToken at hm
    simp only [Bool.and_eq_true, List.all_eq_true] at hm
    have := hm.2 32 hmem
    rw [tchar_not_sp] at this; cases this
  have ht32 : (32 : UInt8) ∉ target := by
    intro hmem
    have : target.any targetForbidden = true := List.any_eq_true.mpr ⟨32, hmem, targetForbidden_sp⟩
    rw [ht] at this; cases this
  have e : m ++ [32] ++ target ++ [32] ++ v = m ++ 32 :: (target ++ 32 :: v) := by simp
  unfold splitRequestLine
  rw [e, cut1_prefix 32 m _ hm32]
  simp only []
  rw [cut1_prefix 32 target v ht32]

/-- **A strict reading is accepted** (strict parser): strict request line, strict field lines
with no singleton field twice, a target yarl accepts, consistent framing headers and — on
HTTP/1.1 — a Host field: the parser accepts, and the message is exactly that reading. -/
theorem strict_request_is_accepted (cfg : Cfg) (hstrict : cfg.lax = false) (urlOk : Bool → Bytes → Bool)
    (line : Bytes) (rest : List Bytes) (method target : Bytes) (vmaj vmin : Nat) (hs : List (Bytes × Bytes))
    (info : HdrInfo)
    (hline : StrictRequestLine line method target vmaj vmin) (hfields : FieldsOf rest hs) (hnd : NoSingletonDup hs)
    (hurl : ((method == bCONNECT) || !(target == [42] && method == bOPTIONS)) = true → urlOk (method == bCONNECT) target = true)
    (hinfo : interpretHeaders cfg hs = .ok info)
    (hhost : vmaj = 1 ∧ vmin = 1 → hasName hs bHost = true) :
    ∃ msg, parseRequest cfg urlOk (line :: rest) = .ok msg ∧ msg.method = method ∧ msg.path = target ∧
      msg.vmajor = vmaj ∧ msg.vminor = vmin ∧ msg.headers = hs := by
  obtain ⟨m, v, eline, hm, hmeth, htf, hver⟩ := hline
  subst hmeth
  unfold parseRequest
  simp only []
  rw [eline, splitRequestLine_complete m target v hm htf]
  simp only [hm, Bool.not_true, Bool.false_eq_true, if_false, hver, htf]
  have hph := parseHeaders_complete cfg.maxField rest hs hfields hnd
  rw [hstrict, hph]
  simp only [hinfo]
  by_cases hor : ((upper m == bCONNECT) || !(target == [42] && upper m == bOPTIONS)) = true
  · have := hurl hor
    simp only [hor, this, Bool.not_true, Bool.and_false, Bool.false_eq_true, if_false]
    by_cases hv : vmaj = 1 ∧ vmin = 1
    · have hh := hhost hv
      obtain ⟨h1, h2⟩ := hv
      subst h1; subst h2
      simp [hh]
    · have : (vmaj == 1 && vmin == 1 && !hasName hs bHost) = false := by
        simp only [Bool.and_eq_false_iff, beq_eq_false_iff_ne, ne_eq]
        by_cases h1 : vmaj = 1
        · by_cases h2 : vmin = 1
          · exact absurd ⟨h1, h2⟩ hv
          · exact Or.inl (Or.inr h2)
        · exact Or.inl (Or.inl h1)
      simp [this]
  · have hor' : ((upper m == bCONNECT) || !(target == [42] && upper m == bOPTIONS)) = false := by simpa using hor
    simp only [hor', Bool.false_and, Bool.false_eq_true, if_false]
    by_cases hv : vmaj = 1 ∧ vmin = 1
    · have hh := hhost hv
      obtain ⟨h1, h2⟩ := hv
      subst h1; subst h2
      simp [hh]
    · have : (vmaj == 1 && vmin == 1 && !hasName hs bHost) = false := by
        simp only [Bool.and_eq_false_iff, beq_eq_false_iff_ne, ne_eq]
        by_cases h1 : vmaj = 1
        · by_cases h2 : vmin = 1
          · exact absurd ⟨h1, h2⟩ hv
          · exact Or.inl (Or.inr h2)
        · exact Or.inl (Or.inl h1)
      simp [this]

/-- Non-vacuity: `GET / HTTP/1.1`, `Host: a` — a strict reading meeting every hypothesis — is
accepted with exactly that reading. -/
example : (match parseRequest {} (fun _ _ => true) [[71, 69, 84, 32, 47, 32, 72, 84, 84, 80, 47, 49, 46, 49],
    [72, 111, 115, 116, 58, 32, 97], []] with
    | .ok msg => msg.method == [71, 69, 84] && msg.path == [47] && msg.headers == [([72, 111, 115, 116], [97])]
    | .error _ => false) = true := by
  decide +kernel

end Aio.Http
