import AioModel.C09
/-!
# C09 — helper definitions and lemmas

`Codec.Lawful`: the laws assumed of a streaming decompressor (never an axiom: a hypothesis of the
theorems that need it; tested against real zlib/brotli/zstd by `harness/c09.py:check_codec_laws`).
-/
namespace Aio.C09
open Aio

/-- drive a codec through a list of `(input, max_length)` calls, concatenating the outputs -/
def Codec.run (c : Codec) : c.St → List (Bytes × Nat) → Option (c.St × Bytes)
  | s, [] => some (s, [])
  | s, (i, m) :: t =>
    match c.step s i m with
    | none => none
    | some (s', o) =>
      match Codec.run c s' t with
      | none => none
      | some (s'', o') => some (s'', o ++ o')

def inputsOf (calls : List (Bytes × Nat)) : Bytes := (calls.map (·.1)).flatten

/-- Laws of a decompressor relative to a one-shot reference decoder.
* `bounded`: a call with `max_length = m > 0` returns at most `m + slack` bytes (`slack = 0` for
  zlib and zstd; Brotli's `process(data, limit)` may overshoot by one 32 KiB block);
* `progress`: `data_available` after a call implies that call produced output;
* `refines`: whatever schedule of calls is used, the concatenated output is a prefix of the
  reference decode of any completion of the input, and equals it once the input is complete and
  nothing is pending;
* `sound`: a stream the decoder has accepted as complete (`eof`, nothing pending) is decodable. -/
structure Codec.Lawful (c : Codec) (slack : Nat) (oneShot : Bytes → Option Bytes) : Prop where
  bounded : ∀ s i m s' o, c.step s i m = some (s', o) → 0 < m → o.length ≤ m + slack
  progress : ∀ s i m s' o, c.step s i m = some (s', o) → c.avail s' = true → o ≠ []
  refines : ∀ calls s out more full, Codec.run c c.init calls = some (s, out) →
    oneShot (inputsOf calls ++ more) = some full → out <+: full
  complete : ∀ calls s out full, Codec.run c c.init calls = some (s, out) → c.avail s = false →
    oneShot (inputsOf calls) = some full → out = full
  sound : ∀ calls s out, Codec.run c c.init calls = some (s, out) → c.avail s = false → c.atEof s = true →
    (oneShot (inputsOf calls)).isSome = true

/-- reference decoder of the toy expansion codec -/
def expandOneShot (i : Bytes) : Option Bytes := if i.any (· == 0) then none else some (expandAll i)

theorem expandAll_append (a b : Bytes) : expandAll (a ++ b) = expandAll a ++ expandAll b := by
  simp [expandAll]

/-- key fact about `Codec.expand`: output so far ++ pending = pending before ++ expansion of the input -/
theorem expand_run (calls : List (Bytes × Nat)) :
    ∀ (p : Bytes) (s : Bytes) (out : Bytes), Codec.run Codec.expand p calls = some (s, out) →
      out ++ s = p ++ expandAll (inputsOf calls) ∧ (inputsOf calls).any (· == 0) = false := by
  induction calls with
  | nil =>
    intro p s out h
    simp [Codec.run] at h
    obtain ⟨rfl, rfl⟩ := h
    simp [inputsOf, expandAll]
  | cons hd tl ih =>
    intro p s out h
    obtain ⟨i, m⟩ := hd
    simp only [Codec.run] at h
    cases hs : expandStep p i m with
    | none => simp [hs] at h
    | some r =>
      obtain ⟨s1, o1⟩ := r
      simp only [hs] at h
      cases hr : Codec.run Codec.expand s1 tl with
      | none => simp [hr] at h
      | some r2 =>
        obtain ⟨s2, o2⟩ := r2
        simp only [hr, Option.some.injEq, Prod.mk.injEq] at h
        obtain ⟨hs2, hout⟩ := h
        have ⟨e2, z2⟩ := ih s1 s2 o2 hr
        have hi : i.any (· == 0) = false ∧ o1 ++ s1 = p ++ expandAll i := by
          unfold expandStep at hs
          by_cases hz : i.any (· == 0) = true
          · simp [hz] at hs
          · by_cases hm : (m == 0) = true
            · simp [hz, hm] at hs
              obtain ⟨h1, h2⟩ := hs
              subst h1; subst h2
              simp [hz]
            · simp [hz, hm] at hs
              obtain ⟨h1, h2⟩ := hs
              subst h1; subst h2
              simp [hz, List.take_append_drop]
        have hin : inputsOf ((i, m) :: tl) = i ++ inputsOf tl := by simp [inputsOf]
        rw [hin, expandAll_append]
        subst hs2; subst hout
        constructor
        · calc o1 ++ o2 ++ s2 = o1 ++ (o2 ++ s2) := by simp
            _ = o1 ++ (s1 ++ expandAll (inputsOf tl)) := by rw [e2]
            _ = (o1 ++ s1) ++ expandAll (inputsOf tl) := by simp
            _ = p ++ expandAll i ++ expandAll (inputsOf tl) := by rw [hi.2]
            _ = p ++ (expandAll i ++ expandAll (inputsOf tl)) := by simp
        · simp [List.any_append, hi.1, z2]

theorem expandStep_spec {p i : Bytes} {m : Nat} {s o : Bytes} (h : expandStep p i m = some (s, o)) :
    (if m = 0 then o = p ++ expandAll i ∧ s = [] else o = (p ++ expandAll i).take m ∧ s = (p ++ expandAll i).drop m) := by
  unfold expandStep at h
  by_cases hz : i.any (· == 0) = true
  · simp [hz] at h
  · by_cases hm : m = 0
    · simp [hz, hm] at h; simp [hm, h.1, h.2]
    · simp [hz, hm] at h; simp [hm, h.1, h.2]

end Aio.C09
