import AioProps.C10
import AioProps.C03Main
/-!
# C10 — the retained-bytes bound as an invariant of whole runs

`feedLoop_retained`: starting from a state whose collected lines respect the limits, after
*any* `feed_data` call that does not raise, the collected header lines still respect them
(at most `max_headers` lines, each at most the limit + 1 long) and, when no body is being
read, the buffered partial line is at most limit + 1 bytes.  By induction this holds after
every sequence of calls (`feed_retained_all`).
-/
namespace Aio.Http
open Aio

/-- the collected header lines respect the limits -/
def LinesInv (cfg : Cfg) (st : St) : Prop :=
  st.lines.length ≤ cfg.maxHeaders ∧ ∀ l ∈ st.lines, l.length ≤ max cfg.maxLine cfg.maxField + 1

theorem maxLenFor_le (cfg : Cfg) (st : St) : maxLenFor cfg st ≤ max cfg.maxLine cfg.maxField := by
  unfold maxLenFor; split <;> omega

theorem onHeaderBlock_lines (cfg : Cfg) (urlOk : Bool → Bytes → Bool) (st st' : St) (lines : List Bytes)
    (evs : List Ev) (sc : Bool) (h : onHeaderBlock cfg urlOk st lines = .ok (st', evs, sc)) :
    st'.lines = [] := by
  unfold onHeaderBlock at h
  simp only [] at h
  repeat' (split at h)
  all_goals (first | (simp only [Except.ok.injEq, Prod.mk.injEq] at h; obtain ⟨h1, _, _⟩ := h; subst h1; rfl) | (cases h; rfl) | cases h)

/-- one continuing iteration keeps the invariant -/
theorem stepOnce_cont_lines (cfg : Cfg) (urlOk : Bool → Bytes → Bool) (st st' : St) (a a' : Bytes) (ev : List Ev)
    (hi : LinesInv cfg st) (h : stepOnce cfg urlOk st a = .cont st' a' ev) : LinesInv cfg st' := by
  unfold stepOnce at h
  cases hp : st.payload with
  | none =>
    simp only [hp] at h
    by_cases hu : st.upgraded = true
    · simp [hu] at h
    simp only [hu] at h
    cases hf : findSep cfg.lax a with
    | none => simp [hf] at h
    | some pos =>
      simp only [hf] at h
      by_cases h0 : (pos == 0 && st.lines.isEmpty) = true
      · simp only [h0, if_true] at h
        simp at h; obtain ⟨h1, _, _⟩ := h; subst h1; exact hi
      · simp only [h0] at h
        by_cases hsc : st.shouldClose = true
        · simp [hsc] at h
        simp only [hsc] at h
        cases hal : acceptLine cfg st (a.take pos) with
        | error e => simp [hal] at h
        | ok lines =>
          simp only [hal] at h
          obtain ⟨hn, line, hl, hll⟩ := accepted_lines_bounded cfg st (a.take pos) lines hal
          by_cases hle : (lines.getLast?.getD []).isEmpty = true
          · simp only [hle, if_true] at h
            cases hob : onHeaderBlock cfg urlOk st lines with
            | error e => simp [hob] at h
            | ok r =>
              obtain ⟨s1, e1, sc⟩ := r
              simp only [hob] at h
              simp at h; obtain ⟨h1, _, _⟩ := h; subst h1
              have := onHeaderBlock_lines cfg urlOk st s1 lines e1 sc hob
              unfold LinesInv; simp [this]
          · simp only [hle] at h
            simp at h; obtain ⟨h1, _, _⟩ := h; subst h1
            refine ⟨by simpa using hn, ?_⟩
            intro l hlm
            simp only at hlm
            rw [hl] at hlm
            rcases List.mem_append.mp hlm with hm | hm
            · exact hi.2 l hm
            · simp at hm; subst hm
              have := maxLenFor_le cfg st; omega
  | some p =>
    simp only [hp] at h
    cases hpf : payloadFeed cfg p a with
    | mk r pevs =>
      simp only [hpf] at h
      cases r with
      | needs p' => simp at h
      | err e rr => simp at h; split at h <;> cases h
      | complete rest =>
        simp at h; obtain ⟨h1, _, _⟩ := h; subst h1
        unfold LinesInv at hi ⊢
        split <;> simpa using hi

/-- what a returning iteration leaves behind -/
theorem stepOnce_stop_retained (cfg : Cfg) (urlOk : Bool → Bytes → Bool) (st : St) (a : Bytes) (o : FeedOut)
    (hi : LinesInv cfg st) (ht : st.tail = []) (h : stepOnce cfg urlOk st a = .stop o) (he : o.err = none) :
    LinesInv cfg o.st ∧ (o.st.payload = none → o.st.upgraded = false →
      o.st.tail.length ≤ max cfg.maxLine cfg.maxField + 1) := by
  unfold stepOnce at h
  cases hp : st.payload with
  | none =>
    simp only [hp] at h
    by_cases hu : st.upgraded = true
    · simp [hu] at h; subst h
      exact ⟨hi, fun _ hup => by simp [hu] at hup⟩
    simp only [hu] at h
    cases hf : findSep cfg.lax a with
    | some pos =>
      simp only [hf] at h
      by_cases h0 : (pos == 0 && st.lines.isEmpty) = true
      · simp [h0] at h
      simp only [h0] at h
      by_cases hsc : st.shouldClose = true
      · simp [hsc] at h; subst h; simp at he
      simp only [hsc] at h
      cases hal : acceptLine cfg st (a.take pos) with
      | error e => simp [hal] at h; subst h; simp at he
      | ok lines =>
        simp only [hal] at h
        by_cases hle : (lines.getLast?.getD []).isEmpty = true
        · simp only [hle, if_true] at h
          cases hob : onHeaderBlock cfg urlOk st lines with
          | error e => simp [hob] at h; subst h; simp at he
          | ok r => obtain ⟨s1, e1, sc⟩ := r; simp [hob] at h
        · simp [hle] at h
    | none =>
      simp only [hf] at h
      simp at h; subst h
      have hb := partial_line_bounded cfg st a []
      simp only at hb
      obtain ⟨hb1, _⟩ := hb
      obtain ⟨htl, hlen, _⟩ := hb1 he
      refine ⟨?_, fun _ _ => ?_⟩
      · unfold partialLine at he ⊢
        split
        · next hc => simp [hc] at he
        · split
          · next hc1 hc2 => simp [hc1, hc2] at he
          · exact hi
      · rw [htl]; have := maxLenFor_le cfg st; omega
  | some p =>
    simp only [hp] at h
    cases hpf : payloadFeed cfg p a with
    | mk r pevs =>
      simp only [hpf] at h
      cases r with
      | complete rest => simp at h
      | needs p' =>
        simp at h; subst h
        exact ⟨hi, fun hpn => by simp at hpn⟩
      | err e rr =>
        simp at h
        split at h
        · simp at h; subst h; simp at he
        · simp at h; subst h
          refine ⟨?_, fun _ _ => ?_⟩
          · unfold LinesInv at hi ⊢; split <;> simpa using hi
          · split <;> simp [ht]

/-- **Retained bytes are bounded after every call that does not raise.** -/
theorem feedLoop_retained (cfg : Cfg) (urlOk : Bool → Bytes → Bool) :
    ∀ (f : Nat) (st : St) (d : Bytes) (acc : List Ev), d.length < f → LinesInv cfg st → st.tail = [] →
      (feedLoop cfg urlOk f st d acc).err = none →
      LinesInv cfg (feedLoop cfg urlOk f st d acc).st ∧
      ((feedLoop cfg urlOk f st d acc).st.payload = none → (feedLoop cfg urlOk f st d acc).st.upgraded = false →
        (feedLoop cfg urlOk f st d acc).st.tail.length ≤ max cfg.maxLine cfg.maxField + 1) := by
  intro f
  induction f with
  | zero => intro st d acc h; omega
  | succ n ih =>
    intro st d acc hlen hi ht he
    by_cases hd : d = []
    · subst hd
      rw [feedLoop_nil] at he ⊢
      exact ⟨hi, fun _ _ => by simp [ht]⟩
    · rw [feedLoop_succ cfg urlOk n st d acc hd] at he ⊢
      cases hs : stepOnce cfg urlOk st d with
      | stop o =>
        rw [hs] at he
        simp only [] at he ⊢
        exact stepOnce_stop_retained cfg urlOk st d o hi ht hs he
      | cont st' d' ev =>
        rw [hs] at he
        simp only [] at he ⊢
        have hi' := stepOnce_cont_lines cfg urlOk st st' d d' ev hi hs
        by_cases hsh : d'.length < d.length
        · simp only [hsh, if_true] at he ⊢
          -- the tail of a continuing state is still empty
          have ht' : st'.tail = [] := by
            unfold stepOnce at hs
            cases hp : st.payload with
            | none =>
              simp only [hp] at hs
              by_cases hu : st.upgraded = true
              · simp [hu] at hs
              simp only [hu] at hs
              cases hf : findSep cfg.lax d with
              | none => simp [hf] at hs
              | some pos =>
                simp only [hf] at hs
                by_cases h0 : (pos == 0 && st.lines.isEmpty) = true
                · simp only [h0, if_true] at hs; simp at hs; obtain ⟨h1, _, _⟩ := hs; subst h1; exact ht
                · simp only [h0] at hs
                  by_cases hsc : st.shouldClose = true
                  · simp [hsc] at hs
                  simp only [hsc] at hs
                  cases hal : acceptLine cfg st (d.take pos) with
                  | error e => simp [hal] at hs
                  | ok lines =>
                    simp only [hal] at hs
                    by_cases hle : (lines.getLast?.getD []).isEmpty = true
                    · simp only [hle, if_true] at hs
                      cases hob : onHeaderBlock cfg urlOk st lines with
                      | error e => simp [hob] at hs
                      | ok r =>
                        obtain ⟨s1, e1, sc⟩ := r
                        simp only [hob] at hs
                        simp at hs; obtain ⟨h1, _, _⟩ := hs; subst h1
                        simpa using (onHeaderBlock_tail cfg urlOk st s1 lines e1 sc hob).trans ht
                    · simp only [hle] at hs
                      simp at hs; obtain ⟨h1, _, _⟩ := hs; subst h1; simpa using ht
            | some p =>
              simp only [hp] at hs
              cases hpf : payloadFeed cfg p d with
              | mk r pevs =>
                simp only [hpf] at hs
                cases r with
                | needs p' => simp at hs
                | err e rr => simp at hs; split at hs <;> cases hs
                | complete rest =>
                  simp at hs; obtain ⟨h1, _, _⟩ := hs; subst h1
                  split <;> simpa using ht
          exact ih st' d' (acc ++ ev) (by omega) hi' ht' he
        · simp only [hsh, if_false] at he
          simp at he

end Aio.Http

namespace Aio.Http
open Aio

/-- what the parser retains between calls is within the configured limits -/
def RetInv (cfg : Cfg) (st : St) : Prop :=
  LinesInv cfg st ∧
  (st.payload = none → st.upgraded = false → st.tail.length ≤ max cfg.maxLine cfg.maxField + 1)

theorem retInv_init (cfg : Cfg) : RetInv cfg {} := by
  refine ⟨⟨by simp, by simp⟩, fun _ _ => by simp⟩

/-- **One call.** If the retained state is within limits before `feed_data(d)` and the call does
not raise, it is within limits afterwards — whatever `d` is. -/
theorem feed_retained (cfg : Cfg) (urlOk : Bool → Bytes → Bool) (st : St) (d : Bytes)
    (hi : RetInv cfg st) (he : (feed cfg urlOk st d).err = none) : RetInv cfg (feed cfg urlOk st d).st := by
  unfold feed at he ⊢
  by_cases hf : st.failed = true
  · simp only [hf, if_true] at he ⊢; exact hi
  · rw [if_neg hf] at he ⊢
    have hi' : LinesInv cfg { st with tail := [] } := hi.1
    exact feedLoop_retained cfg urlOk ((st.tail ++ d).length + 1) { st with tail := [] } (st.tail ++ d) []
      (Nat.lt_succ_self _) hi' rfl he

/-- all the calls of a run -/
def feedAll (cfg : Cfg) (urlOk : Bool → Bytes → Bool) : St → List Bytes → St × Bool
  | st, [] => (st, true)
  | st, d :: ds =>
    let o := feed cfg urlOk st d
    if o.err.isSome then (o.st, false) else feedAll cfg urlOk o.st ds

/-- **Every run.** After any sequence of reads none of which raised, the bytes retained for an
incomplete line and header block are within what the limits allow: at most `max_headers`
collected lines of at most `max(max_line_size, max_field_size) + 1` bytes each, and a buffered
partial line of at most that size. -/
theorem feedAll_retained (cfg : Cfg) (urlOk : Bool → Bytes → Bool) (st : St) (ds : List Bytes)
    (hi : RetInv cfg st) (hok : (feedAll cfg urlOk st ds).2 = true) :
    RetInv cfg (feedAll cfg urlOk st ds).1 := by
  induction ds generalizing st with
  | nil => simpa [feedAll] using hi
  | cons d ds ih =>
    simp only [feedAll] at hok ⊢
    cases he : (feed cfg urlOk st d).err with
    | some e => simp [he] at hok
    | none =>
      simp only [he, Option.isSome_none, Bool.false_eq_true, if_false] at hok ⊢
      exact ih _ (feed_retained cfg urlOk st d hi he) hok

end Aio.Http
