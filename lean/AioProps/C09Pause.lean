import AioModel.C09
import AioProps.C09Flag
/-!
No-stale-pause invariant of the repaired parser (`clearOnNeeds = true`): whenever the payload
parser is alive, no error is set and it holds no pending input, its pause flag is clear — after
every operation sequence.  (For `clearOnNeeds = false` this is false: `C09Cex.staleWorld`.)
-/
namespace Aio.C09
open Aio
variable {c : Codec}

/-- `feed_data` returned NEEDS_INPUT ⇒ `_paused` is clear (repaired code) -/
theorem ppFeed_needs_clears_pause (w : World c) (d : Bytes)
    (hf : (ppFeed w d).clearOnNeeds = true) (hr : (ppFeed w d).res = .needs) : (ppFeed w d).paused = false := by
  simp only [ppFeed] at hf hr ⊢
  split
  · rfl
  · rename_i hn
    split at hf <;> split at hr <;> simp_all

/-- the parser's pause flag is not left over: a live payload parser without pending input and
without error is not paused -/
def NoStale (w : World c) : Prop :=
  w.clearOnNeeds = true → w.ppLive = true → w.parserLive = true → w.exc = none → w.hasMore = false → w.paused = false

theorem ns_setExc (w : World c) (e : Err) : (setExc w e).exc = some e := by
  simp only [setExc]; split <;> rfl

/-- `HttpParser.feed_data` (payload branch) re-establishes the invariant whatever happened inside -/
theorem ns_parserFeed (d : Bytes) (w : World c) (h : NoStale w) : NoStale (parserFeed w d) := by
  simp only [parserFeed]
  split
  · exact h
  · split
    · exact h
    · generalize hW : ppFeed { w with raised := none, res := .needs } d = W
      have key := ppFeed_needs_clears_pause { w with raised := none, res := .needs } d
      rw [hW] at key
      split
      · rename_i hres
        intro hf _ _ _ _
        exact key hf hres
      · intro _ _ _ _ hm; simp at hm
      · intro _ hl _ _ _; simp at hl
      · split
        · intro _ _ _ he _
          have := ns_setExc W (W.raised.getD .assertion)
          simp_all
        · intro _ hl _ _ _; simp at hl

theorem ns_dataReceived (d : Bytes) (w : World c) (h : NoStale w) : NoStale (dataReceived w d) := by
  simp only [dataReceived]; split
  · exact h
  · exact ns_parserFeed d w h
theorem ns_resumeTransport (w : World c) (h : NoStale w) : NoStale (resumeTransport w) := by
  simp only [resumeTransport]; split <;> exact h
theorem ns_resumeReading (w : World c) (h : NoStale w) : NoStale (resumeReading w) :=
  ns_resumeTransport _ (ns_dataReceived [] { w with readingPaused := false } h)
theorem ns_setChunk (n : Nat) (w : World c) (h : NoStale w) : NoStale (setChunk w n) := by
  simp only [setChunk]; split <;> exact h
theorem ns_readChunk (n : Option Nat) (w : World c) (h : NoStale w) : NoStale (readChunk w n) := by
  simp only [readChunk]
  repeat' split
  all_goals first | exact h | (apply ns_resumeReading; exact h)
theorem ns_readAllChunks : ∀ k (w : World c), NoStale w → NoStale (readAllChunks k w) := by
  intro k
  induction k with
  | zero => intro w h; exact h
  | succ n ih => intro w h; exact ih _ (ns_readChunk none w h)
theorem ns_readUpTo : ∀ fuel n (w : World c), NoStale w → NoStale (readUpTo fuel n w) := by
  intro fuel
  induction fuel with
  | zero => intro n w h; exact h
  | succ f ih =>
    intro n w h
    simp only [readUpTo]
    repeat' split
    all_goals first | exact h | exact ns_readChunk _ w h | exact ih _ _ (ns_readChunk _ w h)
theorem ns_readOp (n : Option Nat) (w : World c) (h : NoStale w) : NoStale (readOp w n).1 := by
  simp only [readOp]
  repeat' split
  all_goals first
    | exact h
    | exact ns_setChunk _ w h
    | (apply ns_readUpTo; first | exact h | exact ns_setChunk _ w h)
    | (apply ns_readAllChunks; first | exact h | exact ns_setChunk _ w h)
/-- after `connection_lost` the protocol has dropped its parser: nothing to say -/
theorem ns_connectionLost (w : World c) : NoStale (connectionLost w) := by
  intro _ _ hp _ _
  simp [connectionLost] at hp
theorem ns_reqLoop (cms : Nat) : ∀ fuel (w : World c), NoStale w → NoStale (reqLoop cms fuel w).1 := by
  intro fuel
  induction fuel with
  | zero => intro w h; exact h
  | succ f ih =>
    intro w h
    simp only [reqLoop]
    have h1 := ns_readAllChunks w.buf.length { w with reqParked := false, outb := [] } h
    repeat' split
    all_goals first | exact h | exact h1 | exact ih _ h1
theorem ns_reqRead (cms : Nat) (w : World c) (h : NoStale w) : NoStale (reqRead w cms).1 := by
  simp only [reqRead]
  repeat' split
  all_goals first
    | exact h
    | exact ns_setChunk _ w h
    | (apply ns_reqLoop; first | exact h | exact ns_setChunk _ w h)
theorem ns_resumeGate (w : World c) (h : NoStale w) : ∀ r, resumeGate w = some r → NoStale r.1 := by
  intro r hr
  simp only [resumeGate] at hr
  repeat' split at hr
  all_goals first | (injection hr with hr; subst hr; exact h) | cases hr
theorem ns_parkOrFail (w : World c) (h : NoStale w) : NoStale (parkOrFail w).1 := by
  simp only [parkOrFail]
  repeat' split
  all_goals exact h
theorem ns_parkedRead (n : Option Nat) (w : World c) (h : NoStale w) : NoStale (parkedRead w n).1 := by
  simp only [parkedRead]
  split
  · rename_i r hr; exact ns_resumeGate w h r hr
  · repeat' split
    all_goals first
      | exact h
      | exact ns_setChunk _ w h
      | (apply ns_parkOrFail; first | exact h | exact ns_setChunk _ w h)
      | (apply ns_readUpTo; first | exact h | exact ns_setChunk _ w h)
      | (apply ns_readAllChunks; first | exact h | exact ns_setChunk _ w h)
theorem ns_lineTake (w : World c) (h : NoStale w) : NoStale (lineTake w) := by
  simp only [lineTake]
  exact ns_readChunk _ { w with outb := [] } h
theorem ns_lineInner : ∀ fuel m (w : World c), NoStale w → NoStale (lineInner fuel m w).1 := by
  intro fuel
  induction fuel with
  | zero => intro m w h; exact h
  | succ f ih =>
    intro m w h
    simp only [lineInner]
    have h1 := ns_lineTake w h
    repeat' split
    all_goals first | exact h | exact h1 | exact ih _ _ h1
theorem ns_lineStart (w : World c) (h : NoStale w) : NoStale (lineStart w) := by
  simp only [lineStart]; split <;> exact h
theorem ns_lineFinish (r : World c × LineRes) (h : NoStale r.1) : NoStale (lineFinish r).1 := by
  simp only [lineFinish]
  repeat' split
  all_goals first | exact h | exact ns_parkOrFail _ h
theorem ns_parkedLine (w : World c) (h : NoStale w) : NoStale (parkedLine w).1 := by
  simp only [parkedLine]
  split
  · rename_i r hr; exact ns_resumeGate w h r hr
  · exact ns_lineFinish _ (ns_lineInner _ _ _ (ns_lineStart w h))
/-- after the server's `connection_lost` the protocol has dropped its parser: nothing to say -/
theorem ns_connectionLostServer (w : World c) : NoStale (connectionLostServer w) := by
  intro _ _ hp _ _
  simp [connectionLostServer] at hp
theorem ns_step (w : World c) (op : Op) (h : NoStale w) : NoStale (step w op).1 := by
  cases op with
  | deliver seg =>
    simp only [step]; split
    · exact h
    · exact ns_dataReceived seg { w with wireInR := seg :: w.wireInR } h
  | close => simp only [step]; split
             · exact h
             · exact ns_connectionLost w
  | read n =>
    simp only [step]
    repeat' split
    all_goals first | exact h | exact ns_readOp _ w h
  | readAny => exact ns_readOp none w h
  | setChunk n => exact ns_setChunk n w h
  | reqRead cms => exact ns_reqRead cms w h
  | pread n => exact ns_parkedRead _ w h
  | preadAny => exact ns_parkedRead _ w h
  | preadLine => exact ns_parkedLine w h
  | closeServer => simp only [step]; split
                   · exact h
                   · exact ns_connectionLostServer w
theorem ns_run (ops : List Op) : ∀ (w : World c), NoStale w → NoStale (run w ops) := by
  induction ops with
  | nil => intro w h; exact h
  | cons op t ih => intro w h; exact ih _ (ns_step w op h)

end Aio.C09
