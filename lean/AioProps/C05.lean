import AioProps.C05Lemmas
/-!
# C05 — property theorems (server connection: each request answered once, in order, or closed)

Model: `AioModel/C05.lean` (= `aiohttp/web_protocol.py:RequestHandler` on the FIFO event-loop
abstraction; the HTTP parser and the handler are oracles).  Every invariant below quantifies
over **all** label sequences (`data n | lost | tick | fire t`), all handler programs and all
parser outputs.

Status of the property's clauses:

* *never open with an unanswered request and no handler running* — `no_orphan_waiter`,
  `conn_inv` (full strength for the wake-up protocol between `data_received` and `start()`);
  the unchanged code still violates the clause in two other ways, proved below as
  counterexamples: `start_dies_on_lazy_url_error` and `declined_upgrade_tail_stuck`.
* *bounded queue of parsed-but-unhandled requests* — `queue_bounded`, `queue_cap` (full strength,
  all label sequences incl. re-entry of `feed_data` with a full queue), under the parser contract
  `POut.respectsCap` that the correspondence run checks on every recorded parser call.
* *one well-formed response per request, in order, no interleaving* — not a theorem: the
  unchanged code violates it (`second_header_block_inside_stream`,
  `close_delimited_body_then_next_response`); carried by correspondence + direct oracle.
* *no exception escapes* — carried by correspondence (`x=` column, `E_OTHER`).
-/
namespace Aio.C05
open Aio

/-- **Lost-wake-up freedom (the core of "no orphan").** In every reachable state, if `start()`
is parked on a waiter future that is still pending, then the message queue is empty, the
`start()` coroutine is at its "wait for next request" await and no handler task exists.
So a queued message never coexists with an idle, un-woken request loop — whatever the
segmentation, the parser's outputs, the handler's behaviour, timers and disconnects. -/
theorem conn_inv (cfg : Cfg) (progs : List Prog) (oracle : List POut) (ls : List Label) :
    WInv (run (init cfg progs oracle) ls) :=
  run_winv _ ls (init_winv cfg progs oracle)

/-- Corollary in the property's words: whenever a parsed message is queued, the request loop is
not idling on a pending waiter (it has been woken, is running a handler, or is lingering). -/
theorem no_orphan_waiter (cfg : Cfg) (progs : List Prog) (oracle : List POut) (ls : List Label) :
    (run (init cfg progs oracle) ls).messages ≠ [] → (run (init cfg progs oracle) ls).waiter ≠ .pending :=
  fun hne hp => hne ((conn_inv cfg progs oracle ls).1 hp).1

/-- non-vacuity: the idle state *is* reached (pending waiter, empty queue) … -/
example : (run (init {} [] []) []).waiter = .pending ∧ (run (init {} [] []) []).messages = [] := by
  decide +kernel
/-- … and a queued message with a *resolved* waiter as well -/
example : let s := run (init {} [] [{ msgs := [{}] }]) [.data 28]
    s.messages.length = 1 ∧ s.waiter = .resolved ∧ s.ready = [.startWake] := by
  decide +kernel

/-- The generated constants: the protocol's cap and the parser's cap are the same number and
the low-water mark is below it (re-checked against the source on every run). -/
theorem caps_agree :
    Gen.C05.parserMaxMsgQueueSize = Gen.C05.maxMsgQueueSize ∧
    Gen.C05.msgQueueResumeSize < Gen.C05.maxMsgQueueSize ∧ 0 < Gen.C05.maxMsgQueueSize := by
  decide

/-- **Queue cap (full strength, all label sequences).** In every reachable state — whatever the
segmentation, however often `feed_data` is re-entered (`data_received(b"")` from a body read below
the low-water mark, further segments on a transport that cannot pause), whatever the handlers do —
as long as every parser output respected the parser's side of the contract
(`POut.respectsCap`: no new message is started while `_msg_in_flight >= _max_msg_queue_size`;
a recorded output that breaks it raises `capViolated`, which the correspondence run reports as a
mismatch): `_msg_in_flight` is within the cap and, until an `_ErrInfo` entry has been popped
(after which the connection closes), it covers every queued request. -/
theorem queue_bounded (cfg : Cfg) (progs : List Prog) (oracle : List POut) (ls : List Label) :
    QInv (run (init cfg progs oracle) ls) :=
  run_qinv _ ls (init_qinv cfg progs oracle)

/-- … hence never more than `MAX_MSG_QUEUE_SIZE` parsed-but-unhandled requests. -/
theorem queue_cap (cfg : Cfg) (progs : List Prog) (oracle : List POut) (ls : List Label) :
    (run (init cfg progs oracle) ls).capViolated = false →
    (run (init cfg progs oracle) ls).errPopped = false →
    nreq (run (init cfg progs oracle) ls).messages ≤ Gen.C05.maxMsgQueueSize := by
  intro hv he
  have h := queue_bounded cfg progs oracle ls
  have := Nat.le_trans ((h hv).2 he) (h hv).1
  rw [caps_agree.1] at this
  exact this

/-- 32 requests parsed in one read behind a sleeping handler, on a transport that cannot pause -/
def fullQueue (more : List POut) : St :=
  init { canPause := false } [[.sleep 37, .fin .ok]] ({ msgs := List.replicate 32 {} } :: more)

/-- non-vacuity: refilling the slot freed by the first pop is within the contract … -/
example : let s := run (fullQueue [{ msgs := [{}] }]) [.data 900, .tick, .data 28]
    s.capViolated = false ∧ s.inFlight = 32 ∧ nreq s.messages = 32 := by decide +kernel
/-- … and a parser that starts a 33rd message on re-entry with a full queue (a `feed_data` that forgets the
queue state between calls) is flagged, so the hypothesis of `queue_cap` is not void. -/
example : let s := run (fullQueue [{ msgs := [{}] }, { msgs := [{}] }]) [.data 900, .tick, .data 28, .data 28]
    s.capViolated = true ∧ nreq s.messages = 33 := by decide +kernel

/-- Queue cap, the two sections that write the queue (kept for reference; subsumed by `queue_bounded`). `QInv` — "`_msg_in_flight` ≤ cap
and it covers every queued request" — is preserved by `data_received` (for every parser output;
an output that breaks the parser contract raises the `capViolated` flag, which the
correspondence run reports) and by `popleft()+message_consumed()+low-water resume`. -/
theorem queue_cap_sections_partial :
    (∀ s n, QInv s → QInv (dataReceived s n)) ∧
    (∀ s m rest, s.messages = m :: rest → QInv s → QInv (popPrep s m rest)) ∧
    QInv (init {} [] []) :=
  ⟨dataReceived_qinv, popPrep_qinv, by intro _; exact ⟨by decide, fun _ => by decide⟩⟩

/-- and what `QInv` gives: at most `cap` queued requests -/
theorem qinv_bound (s : St) (h : QInv s) (hv : s.capViolated = false) (he : s.errPopped = false) :
    nreq s.messages ≤ Gen.C05.parserMaxMsgQueueSize :=
  Nat.le_trans ((h hv).2 he) (h hv).1

/-- **Unread body, lingering disabled** (`lingering_time = 0`): a handler answers a keep-alive POST without reading its
body while the body is still incomplete — the loop must not go on with the parser inside that body: `close()` is
called and the transport is closed right after the response (instance checked by the kernel; the general rule is the
`.afterLinger` continuation of `startRun`, tied to the code by correspondence on the lingering family). -/
theorem unread_body_without_linger_closes :
    let s := run (init { lingerMs := 0 } [[.fin .ok]] [{ msgs := [{ hasPayload := true, chunks := 1 }] }]) [.data 120, .tick]
    s.close = true ∧ s.tClosing = true ∧ s.spc = .done ∧ s.wire.reverse = [.hdr 0 200 false, .eof 0] := by
  decide +kernel

/-- … whereas with lingering enabled the loop parks in the lingering read (timer armed), transport open. -/
theorem unread_body_with_linger_waits :
    let s := run (init { lingerMs := 10240 } [[.fin .ok]] [{ msgs := [{ hasPayload := true, chunks := 1 }] }, {}]) [.data 120, .tick]
    s.close = false ∧ s.tClosing = false ∧ s.spc = .linger 10240 ∧ s.lingerTimer.isSome = true := by
  decide +kernel

/-- **Keep-alive expiry racing the next request** (same loop iteration: the timer callback is ready but has not run when
`data_received` delivers the request): the waiter is already resolved, `_process_keepalive` must not close — the request
is answered and the connection stays open. (`conn_inv` / `queue_bounded` already cover every such interleaving, since
`fire` and `data` are independent labels; this is the concrete instance, checked by the kernel.) -/
theorem keepalive_expiry_vs_next_request :
    let s := run (init { keepaliveMs := 1500 } [] [{ msgs := [{}] }, { msgs := [{}] }])
      [.data 28, .tick, .fire 200000, .data 28, .tick, .tick]
    s.now = 1500 ∧ s.tClosing = false ∧ s.forceClose = false ∧
      s.wire.reverse = [.hdr 0 200 false, .eof 0, .hdr 1 200 false, .eof 1] ∧ s.waiter = .pending := by
  decide +kernel

/-! ## counterexamples: deviations of the unchanged code, reproduced on the model -/

/-- two plain pipelined GET requests in one read -/
def twoGets : List POut := [{ msgs := [{}, {}] }]

/-- **Finding (interleaving).** A handler that has started a `StreamResponse` and then raises an
`HTTPException` makes the server write a *second* status line + header block inside the first
response's chunked body, keep the connection open and answer the next request. -/
theorem second_header_block_inside_stream :
    (run (init {} [[.prepare true, .fin .e403], [.fin .ok]] twoGets) [.data 56, .tick]).wire.reverse =
      [.hdr 0 200 false, .chunk 0, .hdr 0 403 false, .eof 0, .hdr 1 200 false, .eof 1] := by
  decide +kernel

/-- **Finding (framing).** An HTTP/1.0 keep-alive request answered by a stream without
Content-Length gets a close-delimited body, but `resp.keep_alive` stays true: the next
response is written after it (into what the client must take for the body). -/
theorem close_delimited_body_then_next_response :
    (run (init {} [[.prepare true, .fin .ok], [.fin .ok]]
        [{ msgs := [{ v11 := false, vge11 := false }, {}] }]) [.data 60, .tick]).wire.reverse =
      [.hdr 0 200 true, .chunk 0, .eof 0, .hdr 1 200 false, .eof 1] := by
  decide +kernel

/-- **Finding (orphan).** `CONNECT h:70000`: the parser accepts the target (yarl validates the
port lazily), `BaseRequest.__init__` raises `ValueError` inside `start()` outside its `try`:
the task ends, nothing is written, the transport stays open. -/
theorem start_dies_on_lazy_url_error :
    let s := run (init {} [] [{ msgs := [{ badUrl := true }] }]) [.data 38, .tick]
    s.spc = .done ∧ s.wire = [] ∧ s.tClosing = false ∧ s.tLost = false ∧ s.ready = [] ∧
      s.kaTimer = none ∧ s.lingerTimer = none := by
  decide +kernel

/-- **Finding (orphan).** An upgrade request *with a body* is answered (declined) before its body
is complete; when the body completes the parser switches to "upgraded" and hands the
pipelined bytes back as a tail that nobody re-parses: the request loop idles on its waiter,
the transport is open, the pipelined requests stay unanswered until the keep-alive timer. -/
theorem declined_upgrade_tail_stuck :
    let s := run (init {} [[.fin .ok]]
        [{ msgs := [{ hasPayload := true, chunks := 1 }] }, {},
         { olds := [{ idx := 0, chunks := 1, eof := true, exc := false }], upgraded := true, tailLen := 84 }, {}])
        [.data 90, .tick, .data 86, .tick]
    s.waiter = .pending ∧ s.upgraded = true ∧ s.messageTail = 84 ∧ s.tClosing = false ∧ s.ready = [] ∧
      s.wire.length = 2 := by
  decide +kernel

end Aio.C05
