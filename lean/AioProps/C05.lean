import AioModel.C05
/-! C05 property theorems (under construction) -/
namespace Aio.C05
end Aio.C05
