import AioModel.C09
namespace Aio.C09
end Aio.C09
