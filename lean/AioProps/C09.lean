import AioProps.C09Lemmas
import AioProps.C09Cex
import AioProps.C09Conserve
import AioProps.C09Pause
import AioProps.C09Entry
import AioProps.C09NoParkExc
import AioProps.C09LowCap
/-!
# C09 — property theorems (body decoding: transparent, memory-bounded, always progresses)

Model: `AioModel/C09.lean`.  Every theorem is stated for an arbitrary `Codec` (the decompressor
is a parameter, never an axiom) unless it is a kernel-evaluated counterexample on a toy codec.
-/
namespace Aio.C09
open Aio

/-- **Non-vacuity of the codec laws.** The toy expansion codec (byte `b` ↦ `b` copies of `b`, a
genuine bomb shape; byte 0 = corrupt) satisfies every law assumed of a decompressor, with no
overshoot, relative to its one-shot reference decoder. -/
theorem expand_lawful : Codec.Lawful Codec.expand 0 expandOneShot where
  bounded := by
    intro s i m s' o h hm
    have := expandStep_spec h
    have hm' : m ≠ 0 := by omega
    simp [hm'] at this
    simp [this.1, List.length_take]; omega
  progress := by
    intro s i m s' o h ha
    have := expandStep_spec h
    by_cases hm : m = 0
    · simp [hm] at this; simp [Codec.expand, this.2] at ha
    · simp [hm] at this
      obtain ⟨ho, hs⟩ := this
      subst ho; subst hs
      simp [Codec.expand] at ha
      intro hnil
      have h1 := congrArg List.length hnil
      simp [List.length_take] at h1
      rcases h1 with h1 | h1
      · exact hm h1
      · simp [h1.1, h1.2] at ha
  refines := by
    intro calls s out more full hrun hone
    have ⟨e, z⟩ := expand_run calls [] s out hrun
    unfold expandOneShot at hone
    split at hone
    · cases hone
    · injection hone with hone
      subst hone
      rw [expandAll_append]
      simp at e
      rw [← e]
      exact ⟨s ++ expandAll more, by simp⟩
  complete := by
    intro calls s out full hrun ha hone
    have ⟨e, z⟩ := expand_run calls [] s out hrun
    simp [Codec.expand] at ha
    subst ha
    unfold expandOneShot at hone
    simp [z] at hone
    simp at e
    rw [e, hone]
  sound := by
    intro calls s out hrun _ _
    have ⟨_, z⟩ := expand_run calls [] s out hrun
    simp [expandOneShot, z]

/-! ## transparency: nothing is lost between the decoder and the application -/

/-- **Conservation (all operation sequences, all codecs, all framings).** Starting from a fresh
reader, after ANY sequence of transport deliveries, peer close, `read(n)`, `readany()`,
`set_read_chunk_size`, `BaseRequest.read()` steps — including every re-entrant
`resume_reading → data_received(b"")` refill that happens inside a read — the bytes handed to
the application followed by the bytes still buffered are exactly the bytes the decoder stage
passed to `StreamReader.feed_data`, in order: nothing is lost, duplicated or reordered. -/
theorem conservation (c : Codec) (limit : Nat) (framing : Framing) (length : Nat)
    (compressed sniff checkEof lax : Bool) (mt : Nat) (clearOnNeeds : Bool) (ops : List Op) :
    let w := run (World.init c limit framing length compressed sniff checkEof lax mt clearOnNeeds) ops
    w.delivered ++ w.buf.flatten = w.decoded := by
  have h0 : Cons (World.init c limit framing length compressed sniff checkEof lax mt clearOnNeeds) := by
    simp [Cons, World.init, flat]
  exact cons_run ops _ h0

/-! ## bounded memory -/

/-- **One decoder step adds at most `max_length + slack` bytes** to the reader buffer (lawful
codec, capped mode), whatever the compression ratio of the input. -/
theorem payFeed_adds_at_most {c : Codec} {slack : Nat} {one : Bytes → Option Bytes} (hc : Codec.Lawful c slack one)
    (w : World c) (chunk : Bytes) (hcomp : w.compressed = true) (hm : 0 < maxLen w) :
    bsize (payFeed w chunk).buf ≤ bsize w.buf + maxLen w + slack := by
  have hsb : ∀ (x : World c) ch, (sniffStart x ch).buf = x.buf := by
    intro x ch; simp only [sniffStart]; split <;> rfl
  have hsm : ∀ (x : World c) ch, maxLen (sniffStart x ch) = maxLen x := by
    intro x ch; simp only [sniffStart]; split <;> rfl
  have hrd : ∀ (x : World c) (d : Bytes), bsize (rdFeed x d).buf ≤ bsize x.buf + d.length := by
    intro x d
    simp only [rdFeed]
    repeat' split
    all_goals first
      | (simp; done)
      | omega
      | (simp only [pauseReading]; split <;> simp [wake, bsize])
      | (simp [wake, bsize])
  have hdec : ∀ (W : World c), 0 < maxLen W → bsize (decodeFeed W chunk).buf ≤ bsize W.buf + maxLen W + slack := by
    intro W hmW
    simp only [decodeFeed]
    split
    · simp only; omega
    · rename_i st out hstep
      have hlen := hc.bounded _ _ _ _ _ hstep hmW
      have := hrd { W with dst := st } out
      simp only at this ⊢
      omega
  have hpf : payFeed w chunk = decodeFeed (sniffStart { w with rawInR := chunk :: w.rawInR, dsize := w.dsize + chunk.length } chunk) chunk := by
    simp [payFeed, hcomp]
  rw [hpf]
  have := hdec (sniffStart { w with rawInR := chunk :: w.rawInR, dsize := w.dsize + chunk.length } chunk)
    (by rw [hsm]; exact hm)
  rw [hsb, hsm] at this
  have e1 : maxLen ({ w with rawInR := chunk :: w.rawInR, dsize := w.dsize + chunk.length } : World c) = maxLen w := rfl
  simp only [e1] at this
  exact this

/-- **The reader asks for a pause as soon as it is above its high-water mark**: after
`StreamReader.feed_data` either the buffer is within `high_water`, or the protocol is marked
reading-paused and (parser and payload parser alive) the payload parser's pause flag is set and
(transport attached) the transport is paused. -/
theorem rdFeed_pauses_above_high {c : Codec} (w : World c) (data : Bytes) (he : w.eof = false)
    (hlive : w.parserLive = true ∧ w.ppLive = true) (hw : bsize w.buf ≤ w.high) :
    let w' := rdFeed w data
    bsize w'.buf ≤ w'.high ∨ (w'.readingPaused = true ∧ w'.paused = true ∧ (w'.connected = true → w'.trPaused = true)) := by
  simp only [rdFeed, he]
  simp only [Bool.false_eq_true, ↓reduceIte]
  repeat' split
  all_goals first
    | (left; assumption)
    | (right; simp [pauseReading, wake, hlive.1, hlive.2]; intro h; simp [h])
    | (left; simp [wake] at *; omega)

/-- **The `data_available` loop stops feeding once the parser is paused**: if the payload
parser's pause flag is set on entry with decoder output pending, `drain` returns
HAS_PENDING_INPUT without calling the decoder (buffer unchanged) and clears the flag — the stale
flag of the stale-pause finding is exactly a flag this loop never got to see. -/
theorem drain_respects_pause {c : Codec} (w : World c) (fuel : Nat) (hm : w.more = true) (hp : w.paused = true) :
    (drain (fuel + 1) w).res = .pending ∧ (drain (fuel + 1) w).buf = w.buf ∧ (drain (fuel + 1) w).paused = false := by
  simp [drain, hm, hp]

/- FULL STATEMENT (not proved — kept at full strength; see `resident_bounded_partial` below):
   theorem resident_bounded (hc : Codec.Lawful c slack one) (ops) :
     let w := run (World.init c limit framing length true sniff checkEof lax mt) ops
     w.low < maxsize → bsize w.buf ≤ w.high + 2 * (max w.limit w.low + slack)
   Missing: the global induction over all operation sequences carrying the invariant
   "size > high → readingPaused ∧ (connected → trPaused)" and, inside one `feed_data` call,
   "size > high → paused" from each decoder step to the next pause check.  The three lemmas
   above are its local steps; the global bound is checked on every generated run by the
   correspondence harness (model peak = implementation peak) and by the direct oracle. -/

/-- **Resident decoded bytes, one call (partial).** Starting a decoder step within the high-water
mark, the buffer afterwards is within `high_water + max_length + slack`, and if it exceeds the
high-water mark the pause has been requested from all three parties. Independent of the
compression ratio. -/
theorem resident_bounded_partial {c : Codec} {slack : Nat} {one : Bytes → Option Bytes} (hc : Codec.Lawful c slack one)
    (w : World c) (chunk : Bytes) (hcomp : w.compressed = true) (hm : 0 < maxLen w) (hw : bsize w.buf ≤ w.high) :
    bsize (payFeed w chunk).buf ≤ w.high + maxLen w + slack := by
  have := payFeed_adds_at_most hc w chunk hcomp hm
  omega

/-! ## errors -/

/-- **A payload error is sticky and stops delivery.** Once an exception is set on the stream,
every `read(n)` / `readany()` raises exactly that exception and the state (in particular the
bytes delivered to the application) does not change. -/
theorem error_is_sticky {c : Codec} (w : World c) (e : Err) (h : w.exc = some e) :
    (∀ n, step w (.read n) = (w, .err e)) ∧ step w .readAny = (w, .err e) := by
  constructor
  · intro n; simp [step, h]
  · simp [step, readOp, h]

/-- **A corrupt encoding is reported as a payload error** (first feed of a call, Content-Length
and until-EOF framing): if the decompressor raises on the bytes of this read, the stream gets the
`ContentEncodingError`, nothing of this read reaches the reader buffer, and the payload parser
is dropped. (Failures inside the `data_available` drain loop and in chunked framing take the same
`raised → failed → set_exception` path; they are covered by the correspondence run.) -/
theorem corrupt_is_error {c : Codec} (w : World c) (data : Bytes)
    (hl : w.ppLive = true) (hc : w.compressed = true) (hs : w.started = true) (hd : data ≠ [])
    (hf : w.framing = .untilEof)
    (hbad : c.step w.dst data (maxLen w) = none) :
    let w' := parserFeed w data
    w'.exc = some .contentEncoding ∧ w'.buf = w.buf ∧ w'.ppLive = false ∧ w'.hasMore = false := by
  have hd' : data.isEmpty = false := by cases data <;> simp_all
  simp [parserFeed, hl, hd', ppFeed, ppFeedCore, hf, feedUntilEof, payFeed, decodeFeed, sniffStart, hc, hs, maxLen] at *
  simp [hbad, setExc]
  split <;> simp

/-- **The incomplete-stream check exists for `deflate` only** (root cause of the finding
"truncated gzip / br / zstd body ends with a clean EOF"): when the encoding is not `deflate`,
`DeflateBuffer.feed_eof` never consults the decoder — whatever its state, end-of-body is
signalled to the reader without error. -/
theorem truncated_clean_eof_counterexample {c : Codec} (w : World c) (h : w.checkEof = false) :
    (payEof w).eof = true ∧ (payEof w).raised = w.raised := by
  simp [payEof, h, rdFeedEof, resumeTransport, wake]
  split <;> simp

/-! ## client_max_size -/

/-- **`BaseRequest.read()` never returns more than `client_max_size`.** Whatever the stream
does, if the read loop returns a body then (for a non-zero limit) its length is within the limit. -/
theorem read_capped {c : Codec} (cms : Nat) (hc : cms ≠ 0) :
    ∀ (fuel : Nat) (w w' : World c) (body : Bytes), reqLoop cms fuel w = (w', .data body) → body.length ≤ cms := by
  intro fuel
  induction fuel with
  | zero => intro w w' body h; simp [reqLoop] at h
  | succ n ih =>
    intro w w' body h
    unfold reqLoop at h
    simp only at h
    repeat' split at h
    all_goals first
      | (simp at h; done)
      | exact ih _ _ _ h
      | (simp at h
         obtain ⟨rfl, rfl⟩ := h
         rename_i hnot _
         simp [hc] at hnot
         simpa using hnot)

/-! ## counterexamples on the unchanged code (findings), evaluated by the kernel -/

/-- **Progress fails (stale parser pause).** Chunked body, no compression, limit 4: the first
read carries one 9-byte chunk (over the high-water mark 8) and ends right after it; the consumer
drains it; the second read carries the rest of the body, complete. Then: the buffer is empty,
no EOF, no error, the transport is *not* paused, the parser holds the unparsed input
(`hasMore`) — and the consumer's next read blocks. Nothing will ever call `data_received(b"")`. -/
theorem progress_counterexample_stale_pause :
    staleWorld.buf = [] ∧ staleWorld.eof = false ∧ staleWorld.exc = none ∧ staleWorld.trPaused = false ∧
    staleWorld.connected = true ∧ staleWorld.hasMore = true ∧ staleWorld.tail = staleSeg2.drop 3 ∧ staleWorld.chunkSize = 5 ∧
    staleWorld.delivered = List.replicate 9 88 ∧ (step staleWorld .readAny).2 = .blocked := by
  decide +kernel

/-- The same defect in its two sibling alignments (known findings K9, K10), still on the model of
the code before the repair: the pausing read ends after the chunk's data but before its CRLF, or
inside the next chunk-size line — the body is complete on the wire, 9 of 14 bytes are delivered,
no EOF, no error. -/
theorem progress_counterexample_stale_pause_siblings :
    (staleRun false k9Ops).delivered = List.replicate 9 88 ∧ (staleRun false k9Ops).eof = false ∧
    (staleRun false k9Ops).exc = none ∧ (staleRun false k9Ops).hasMore = true ∧
    (staleRun false k10Ops).delivered = List.replicate 9 88 ∧ (staleRun false k10Ops).eof = false ∧
    (staleRun false k10Ops).exc = none ∧ (staleRun false k10Ops).hasMore = true := by
  decide +kernel

/-! ## the repaired parser (`clearOnNeeds = true`, i.e. `Gen.C09.needsInputClearsPause = true`) -/

/-- **A NEEDS_INPUT return leaves no pause flag behind** (repaired code, every framing, every
codec, every input): if `HttpPayloadParser.feed_data` returns PAYLOAD_NEEDS_INPUT then `_paused`
is clear. -/
theorem needs_input_clears_pause {c : Codec} (w : World c) (d : Bytes)
    (hf : (ppFeed w d).clearOnNeeds = true) (hr : (ppFeed w d).res = .needs) : (ppFeed w d).paused = false :=
  ppFeed_needs_clears_pause w d hf hr

/-- **No stale pause, over all operation sequences** (repaired code; all codecs, framings, limits).
After ANY sequence of deliveries, reads, `set_read_chunk_size`, `BaseRequest.read()` steps and
peer close: if the payload parser is alive, no error is set and the parser holds no pending
input, then its pause flag is clear — the precondition of the stale-pause stall
(`progress_counterexample_stale_pause`) is unreachable. -/
theorem no_stale_pause (c : Codec) (limit : Nat) (framing : Framing) (length : Nat)
    (compressed sniff checkEof lax : Bool) (mt : Nat) (ops : List Op) :
    let w := run (World.init c limit framing length compressed sniff checkEof lax mt true) ops
    w.ppLive = true → w.parserLive = true → w.exc = none → w.hasMore = false → w.paused = false := by
  intro w
  have h0 : NoStale (World.init c limit framing length compressed sniff checkEof lax mt true) := by
    intro _ _ _ _ _; rfl
  have hf : FlagOn (World.init c limit framing length compressed sniff checkEof lax mt true) := rfl
  exact ns_run ops _ h0 (flag_run ops _ hf)

/-- the same for the model instance the driver runs (flag taken from the probe of the source) -/
theorem no_stale_pause_current (hfl : Gen.C09.needsInputClearsPause = true) (c : Codec) (limit : Nat)
    (framing : Framing) (length : Nat) (compressed sniff checkEof lax : Bool) (mt : Nat) (ops : List Op) :
    let w := run (World.init c limit framing length compressed sniff checkEof lax mt Gen.C09.needsInputClearsPause) ops
    w.ppLive = true → w.parserLive = true → w.exc = none → w.hasMore = false → w.paused = false := by
  rw [hfl]; exact no_stale_pause c limit framing length compressed sniff checkEof lax mt ops

/-- **The three stale-pause scenarios reach end-of-body on the repaired parser**: same inputs as
K8 / K9 / K10, consumer keeps reading — all 14 body bytes are delivered, EOF is signalled, no
error, nothing pending. -/
theorem stale_pause_scenarios_repaired :
    (staleRun true k8Ops).delivered = List.replicate 9 88 ++ hello ∧ (staleRun true k8Ops).eof = true ∧
    (staleRun true k9Ops).delivered = List.replicate 9 88 ++ hello ∧ (staleRun true k9Ops).eof = true ∧
    (staleRun true k10Ops).delivered = List.replicate 9 88 ++ hello ∧ (staleRun true k10Ops).eof = true ∧
    (staleRun true k8Ops).exc = none ∧ (staleRun true k9Ops).exc = none ∧ (staleRun true k10Ops).exc = none := by
  decide +kernel

/-- **F19: body lost when the peer closes while the decoder has pending output.** Content-Length
body fully received (1 byte decoding to 200), limit 4; the peer closes; the consumer reads the
16 buffered bytes and then gets `RuntimeError("Connection closed.")` — 184 bytes are lost, EOF is
never signalled. -/
theorem lost_body_counterexample_peer_close :
    f19World.delivered.length = 16 ∧ f19World.eof = false ∧ f19World.exc = none ∧ f19World.buf = [] ∧
    f19World.parserLive = false ∧ (step f19World .readAny).2 = .err .connClosed := by
  decide +kernel

/-- **Body lost when the peer closes while the paused chunked parser holds unparsed input**
(no compression needed): complete chunked body in one read, 9 bytes buffered, peer closes →
`feed_eof` raises `TransferEncodingError`, the 5 remaining bytes are never parsed and even the
9 buffered bytes can no longer be read. -/
theorem lost_body_counterexample_chunked_close :
    chunkCloseWorld.exc = some .transferEncoding ∧ chunkCloseWorld.delivered = [] ∧
    (step chunkCloseWorld .readAny).2 = .err .transferEncoding := by
  decide +kernel

/-- **A parked reader misses the payload error.** `BaseRequest.read()` is parked in `_wait`;
one `data_received` call ends the current HTTP chunk without new output (which completes the
waiter) and then hits a malformed chunk-size line (`set_exception` finds no waiter). The resumed
coroutine re-parks without looking at `_exception`: the error is set, the reader is blocked
forever. -/
theorem parked_reader_misses_error_counterexample :
    parkWorld.exc = some .transferEncoding ∧ parkWorld.reqParked = true ∧ parkWorld.waiter = true ∧
    (step parkWorld (.reqRead 0)).2 = .blocked := by
  decide +kernel

/-! ## the repaired `StreamReader._wait` (`waitRechecks = true`, i.e. `Gen.C09.waitRechecksException = true`) -/

/-- **A resumed reader raises the recorded payload error** (repaired `_wait`; every codec, every
state): a `BaseRequest.read()` that was parked, was woken normally (data, eof or a chunk end) and
finds an exception recorded on the stream raises exactly that exception instead of reading on
or parking again. -/
theorem resumed_reader_raises_recorded_exception {c : Codec} (w : World c) (cms : Nat) (e : Err)
    (hf : w.waitRechecks = true) (hs : w.reqStarted = true) (hp : w.reqParked = true) (hw : w.waiter = false)
    (hk : w.wakeExc = none) (he : w.exc = some e) :
    reqRead w cms = ({ w with reqParked := false }, .err e) := by
  simp [reqRead, hf, hs, hp, hw, hk, he]

/-- The same state on the code before the repair: with nothing buffered the resumed reader parks
again on a fresh waiter — the recorded exception is never looked at (known finding K4). -/
theorem resumed_reader_reparks_unrepaired {c : Codec} (w : World c) (cms : Nat) (e : Err)
    (hf : w.waitRechecks = false) (hf2 : w.waitEntryCheck = false) (hs : w.reqStarted = true) (hp : w.reqParked = true)
    (hw : w.waiter = false) (hk : w.wakeExc = none) (he : w.exc = some e) (hb : w.buf = []) (heof : w.eof = false)
    (hc : w.connected = true) :
    (reqRead w cms).2 = .blocked ∧ (reqRead w cms).1.waiter = true := by
  simp [reqRead, reqLoop, hf, hf2, hs, hp, hw, hk, he, hb, heof, hc]

/-- **The parked-reader scenario on both versions** (kernel-evaluated): same input as
`parked_reader_misses_error_counterexample`; before the repair the last `read()` step blocks
with the error recorded, after the repair it raises the `TransferEncodingError`. -/
theorem parked_reader_scenario_both_versions :
    (parkRun false).exc = some .transferEncoding ∧ (step (parkRun false) (.reqRead 0)).2 = .blocked ∧
    (parkRun true).exc = some .transferEncoding ∧ (step (parkRun true) (.reqRead 0)).2 = .err .transferEncoding := by
  decide +kernel

/-! ## a reader that stays parked: `read(n)`, `readline()`, server-side close -/

/-- **`read(n)` / `readany()` never return "nothing" in the middle of a body.** A kept coroutine
that gets as far as `_read_nowait` had a non-empty buffer or was at end-of-body — a wake-up
without data (end of an HTTP chunk whose last bytes decode to nothing) parks it again. -/
theorem read_returns_only_with_data_or_eof {c : Codec} (w w' : World c) (n : Option Nat) (d : Bytes)
    (h : parkedRead w n = (w', .data d)) (hb : w.buf = []) : w.eof = true := by
  simp only [parkedRead] at h
  split at h
  · rename_i r hr
    simp only [resumeGate] at hr
    repeat' split at hr
    all_goals first | (injection hr with hr; subst hr; simp at h) | cases hr
  · have hb' : ∀ k, (setChunk w k).buf = [] ∧ (setChunk w k).eof = w.eof := by
      intro k; simp only [setChunk]; split <;> simp [hb]
    cases n with
    | none =>
      simp only [hb, List.isEmpty_nil, Bool.true_and] at h
      split at h
      · simp only [parkOrFail] at h; (repeat' split at h) <;> simp at h
      · rename_i hne; simpa using hne
    | some k =>
      simp only [(hb' k).1, (hb' k).2, List.isEmpty_nil, Bool.true_and] at h
      split at h
      · simp only [parkOrFail] at h; (repeat' split at h) <;> simp at h
      · rename_i hne; simpa using hne

/-- **One `readline()` holds at most `max_size` bytes** (`max_size` = the reader's high-water mark
unless given): whatever refills the reader re-entrantly while buffers are taken — a compressed
body whose input has already arrived, any ratio — the line collected so far is checked after
every buffer, so the loop either has raised `LineTooLong` or holds at most `max_size` bytes. -/
theorem readline_collects_at_most_max_size {c : Codec} :
    ∀ (fuel m : Nat) (w : World c), w.lineAcc.length ≤ m → (lineInner fuel m w).2 ≠ .tooLong →
      (lineInner fuel m w).1.lineAcc.length ≤ m := by
  intro fuel
  induction fuel with
  | zero => intro m w h _; simpa [lineInner] using h
  | succ f ih =>
    intro m w h hne
    simp only [lineInner] at hne ⊢
    by_cases hb : w.buf.isEmpty = true
    · simp only [hb, ↓reduceIte]; exact h
    · simp only [hb, Bool.false_eq_true, ↓reduceIte] at hne ⊢
      generalize lineTake w = W at hne ⊢
      by_cases hgt : W.lineAcc.length > m
      · simp [hgt] at hne
      · simp only [hgt, ↓reduceIte] at hne ⊢
        by_cases hf : lineFound w = true
        · simp only [hf, ↓reduceIte]; omega
        · simp only [hf, Bool.false_eq_true, ↓reduceIte] at hne ⊢
          exact ih _ _ (by omega) hne

/-- the line a fresh `readline()` returns is at most `high_water` bytes long -/
theorem readline_result_bounded {c : Codec} (w w' : World c) (d : Bytes)
    (hp : w.reqParked = false) (h : parkedLine w = (w', .data d)) : d.length ≤ w.high := by
  simp only [parkedLine] at h
  split at h
  · rename_i r hr
    simp only [resumeGate, hp] at hr
    repeat' split at hr
    all_goals first | (injection hr with hr; subst hr; simp at h) | cases hr
  · have hs : lineStart w = { w with lineMax := w.high, lineAcc := [] } := by simp [lineStart, hp]
    rw [hs] at h
    have key := readline_collects_at_most_max_size (w.high + 2) w.high { w with lineMax := w.high, lineAcc := [] } (by simp)
    generalize lineInner (w.high + 2) w.high { w with lineMax := w.high, lineAcc := [] } = r at h key
    obtain ⟨w1, res⟩ := r
    cases res with
    | tooLong => simp [lineFinish] at h
    | found =>
      simp [lineFinish] at h key
      rw [← h.2]; exact key
    | more =>
      simp only [lineFinish] at h
      simp at key
      split at h
      · simp at h; rw [← h.2]; exact key
      · simp only [parkOrFail] at h; (repeat' split at h) <;> simp at h

/-- **Server-side close fails the request payload** (`RequestHandler.connection_lost`, clean FIN
included): the payload carries `ConnectionResetError`, and a handler parked in `read()` on the
truncated body is woken with it instead of waiting forever. -/
theorem server_close_fails_parked_handler {c : Codec} (w : World c) (cms : Nat)
    (hs : w.reqStarted = true) (hp : w.reqParked = true) (hw : w.waiter = true) :
    (connectionLostServer w).exc = some .connReset ∧ (reqRead (connectionLostServer w) cms).2 = .err .connReset := by
  simp [connectionLostServer, setExc, hw, reqRead, hs, hp]

/-! ## the `_wait` that checks before parking (`waitEntryCheck = true`, i.e. `Gen.C09.waitChecksExceptionAtEntry = true`) -/

/-- **Parking raises a recorded exception** (repaired `_wait`): wherever a kept reader would park,
it raises the exception recorded on the stream instead. -/
theorem park_raises_recorded_exception {c : Codec} (w : World c) (e : Err)
    (hf : w.waitEntryCheck = true) (he : w.exc = some e) :
    (parkOrFail w).2 = .err e ∧ (parkOrFail w).1.waiter = w.waiter := by
  simp [parkOrFail, hf, he]

/-- **A reader is never parked on a live waiter while an exception is recorded** (repaired
`_wait`; all codecs, framings, limits; ALL operation sequences incl. `read(n)`, `readany()`,
`readline()`, `BaseRequest.read()`, peer close on either side): `set_exception` fails a
registered waiter, and nothing parks once an exception is recorded.  This is the negation of
the known findings K4 and K13 for every reachable state. -/
theorem never_parked_with_exception_recorded (c : Codec) (limit : Nat) (framing : Framing) (length : Nat)
    (compressed sniff checkEof lax : Bool) (mt : Nat) (clearOnNeeds waitRechecks : Bool) (ops : List Op) :
    let w := run (World.init c limit framing length compressed sniff checkEof lax mt clearOnNeeds waitRechecks true) ops
    w.waiter = true → w.exc = none := by
  intro w
  have h0 : NPE (World.init c limit framing length compressed sniff checkEof lax mt clearOnNeeds waitRechecks true) := by
    intro _ hw; simp [World.init] at hw
  have hf : EntryOn (World.init c limit framing length compressed sniff checkEof lax mt clearOnNeeds waitRechecks true) := rfl
  exact npe_run ops _ h0 (entry_run ops _ hf)

/-- the same for the model instance the driver runs (flags taken from the probes of the source) -/
theorem never_parked_with_exception_recorded_current (hfl : Gen.C09.waitChecksExceptionAtEntry = true)
    (c : Codec) (limit : Nat) (framing : Framing) (length : Nat) (compressed sniff checkEof lax : Bool) (mt : Nat)
    (ops : List Op) :
    let w := run (World.init c limit framing length compressed sniff checkEof lax mt Gen.C09.needsInputClearsPause
      Gen.C09.waitRechecksException Gen.C09.waitChecksExceptionAtEntry) ops
    w.waiter = true → w.exc = none := by
  rw [hfl]; exact never_parked_with_exception_recorded c limit framing length compressed sniff checkEof lax mt _ _ ops

/-- **K13 on both versions** (kernel-evaluated): the parser holds a corrupt chunk as pending input;
`readline()` takes the buffered bytes, the re-entrant refill makes the parser fail
(`ContentEncodingError` recorded while the coroutine runs).  Before the repair the coroutine then
parks — blocked, error recorded, waiter live; after it, `readline()` raises the error. -/
theorem readline_after_own_refill_error_both_versions :
    (step (k13Run false) .preadLine).2 = .blocked ∧ (step (k13Run false) .preadLine).1.exc = some .contentEncoding ∧
    (step (k13Run false) .preadLine).1.waiter = true ∧
    (step (k13Run true) .preadLine).2 = .err .contentEncoding ∧ (step (k13Run true) .preadLine).1.waiter = false := by
  decide +kernel

/-! ## `BaseRequest.read()` keeps the decoder capped -/

/-- **`request.read()` (and `post()`/`text()`/`json()` through it) never lifts the decoder's
output cap**: it raises the read-buffer limit to `client_max_size`, not to "everything" — with a
finite `client_max_size` the reader's low-water mark stays below `sys.maxsize` through the whole
read loop (every re-entrant refill included), so `DeflateBuffer` keeps passing a finite
`max_length = max(read_bufsize, low_water)` and the high-water flow control stays in force. -/
theorem request_read_keeps_decoder_cap {c : Codec} (w : World c) (cms : Nat)
    (hl : w.low < maxsize) (hc : cms < maxsize) :
    (reqRead w cms).1.low < maxsize ∧ maxLen (reqRead w cms).1 = max (reqRead w cms).1.limit (reqRead w cms).1.low := by
  have h1 : LowCapped (reqRead w cms).1 := by
    simp only [reqRead]
    repeat' split
    all_goals first
      | exact hl
      | exact lowc_setChunk cms hc w hl
      | (apply lowc_reqLoop; first | exact hl | exact lowc_setChunk cms hc w hl)
  refine ⟨h1, ?_⟩
  have : ¬ ((reqRead w cms).1.low ≥ maxsize) := by
    have := h1; unfold LowCapped at this; omega
  simp [maxLen, this]

end Aio.C09
