import AioModel.C13
/-!
# C13 — helper lemmas

The wire-level clauses of C13 only depend on five components of the state
(`cfg`, `closed`, `wClosing`, `paused`, `frames`): `wire s`.  Most model functions leave them
untouched (`wire (f s) = wire s`, section "class 1", mechanically generated); the few that do not
(`sendFrame`, `setClosed`, the explicit `wClosing := true` of `WebSocketWriter.close`'s `finally`)
are treated one by one.
-/
namespace Aio.C13
open Aio

structure Wire where
  cfg : Cfg
  closed : Bool
  wClosing : Bool
  paused : Bool
  frames : List Frame

def wire (s : St) : Wire := ⟨s.cfg, s.closed, s.wClosing, s.paused, s.frames⟩

/-- split every `if`/`match` of the goal, then close each leaf by computing the five fields -/
macro "wire_auto" : tactic =>
  `(tactic| ((repeat' (first | split | (simp only []; split))) <;> simp [wire]))

theorem wire_wakeAll_aux (s : St) (ts : List Tid) (v : FutSt) : wire (wakeAll s ts v) = wire s := by
  unfold wakeAll
  induction ts generalizing s with
  | nil => rfl
  | cons t ts ih => simp only [List.foldl]; rw [ih]; rfl

/-! ## class 1: functions that do not touch the wire components -/

theorem wire_setT (s : St) (t : Tid) (f : Task → Task) : wire (setT s t f) = wire s := rfl
@[simp] theorem setT_cfg (s : St) (t : Tid) (f : Task → Task) : (setT s t f).cfg = s.cfg :=
  congrArg Wire.cfg (wire_setT s t f)
@[simp] theorem setT_closed (s : St) (t : Tid) (f : Task → Task) : (setT s t f).closed = s.closed :=
  congrArg Wire.closed (wire_setT s t f)
@[simp] theorem setT_wClosing (s : St) (t : Tid) (f : Task → Task) : (setT s t f).wClosing = s.wClosing :=
  congrArg Wire.wClosing (wire_setT s t f)
@[simp] theorem setT_paused (s : St) (t : Tid) (f : Task → Task) : (setT s t f).paused = s.paused :=
  congrArg Wire.paused (wire_setT s t f)
@[simp] theorem setT_frames (s : St) (t : Tid) (f : Task → Task) : (setT s t f).frames = s.frames :=
  congrArg Wire.frames (wire_setT s t f)

theorem wire_wakeTask (s : St) (t : Tid) (v : FutSt) : wire (wakeTask s t v) = wire s := rfl
@[simp] theorem wakeTask_cfg (s : St) (t : Tid) (v : FutSt) : (wakeTask s t v).cfg = s.cfg :=
  congrArg Wire.cfg (wire_wakeTask s t v)
@[simp] theorem wakeTask_closed (s : St) (t : Tid) (v : FutSt) : (wakeTask s t v).closed = s.closed :=
  congrArg Wire.closed (wire_wakeTask s t v)
@[simp] theorem wakeTask_wClosing (s : St) (t : Tid) (v : FutSt) : (wakeTask s t v).wClosing = s.wClosing :=
  congrArg Wire.wClosing (wire_wakeTask s t v)
@[simp] theorem wakeTask_paused (s : St) (t : Tid) (v : FutSt) : (wakeTask s t v).paused = s.paused :=
  congrArg Wire.paused (wire_wakeTask s t v)
@[simp] theorem wakeTask_frames (s : St) (t : Tid) (v : FutSt) : (wakeTask s t v).frames = s.frames :=
  congrArg Wire.frames (wire_wakeTask s t v)

theorem wire_wakeAll (s : St) (ts : List Tid) (v : FutSt) : wire (wakeAll s ts v) = wire s := wire_wakeAll_aux s ts v
@[simp] theorem wakeAll_cfg (s : St) (ts : List Tid) (v : FutSt) : (wakeAll s ts v).cfg = s.cfg :=
  congrArg Wire.cfg (wire_wakeAll s ts v)
@[simp] theorem wakeAll_closed (s : St) (ts : List Tid) (v : FutSt) : (wakeAll s ts v).closed = s.closed :=
  congrArg Wire.closed (wire_wakeAll s ts v)
@[simp] theorem wakeAll_wClosing (s : St) (ts : List Tid) (v : FutSt) : (wakeAll s ts v).wClosing = s.wClosing :=
  congrArg Wire.wClosing (wire_wakeAll s ts v)
@[simp] theorem wakeAll_paused (s : St) (ts : List Tid) (v : FutSt) : (wakeAll s ts v).paused = s.paused :=
  congrArg Wire.paused (wire_wakeAll s ts v)
@[simp] theorem wakeAll_frames (s : St) (ts : List Tid) (v : FutSt) : (wakeAll s ts v).frames = s.frames :=
  congrArg Wire.frames (wire_wakeAll s ts v)

theorem wire_cancelCb (s : St) (cb : Cb) : wire (cancelCb s cb) = wire s := rfl
@[simp] theorem cancelCb_cfg (s : St) (cb : Cb) : (cancelCb s cb).cfg = s.cfg :=
  congrArg Wire.cfg (wire_cancelCb s cb)
@[simp] theorem cancelCb_closed (s : St) (cb : Cb) : (cancelCb s cb).closed = s.closed :=
  congrArg Wire.closed (wire_cancelCb s cb)
@[simp] theorem cancelCb_wClosing (s : St) (cb : Cb) : (cancelCb s cb).wClosing = s.wClosing :=
  congrArg Wire.wClosing (wire_cancelCb s cb)
@[simp] theorem cancelCb_paused (s : St) (cb : Cb) : (cancelCb s cb).paused = s.paused :=
  congrArg Wire.paused (wire_cancelCb s cb)
@[simp] theorem cancelCb_frames (s : St) (cb : Cb) : (cancelCb s cb).frames = s.frames :=
  congrArg Wire.frames (wire_cancelCb s cb)

theorem wire_trClose (s : St)  : wire (trClose s) = wire s := by
  unfold trClose
  wire_auto
@[simp] theorem trClose_cfg (s : St)  : (trClose s).cfg = s.cfg :=
  congrArg Wire.cfg (wire_trClose s)
@[simp] theorem trClose_closed (s : St)  : (trClose s).closed = s.closed :=
  congrArg Wire.closed (wire_trClose s)
@[simp] theorem trClose_wClosing (s : St)  : (trClose s).wClosing = s.wClosing :=
  congrArg Wire.wClosing (wire_trClose s)
@[simp] theorem trClose_paused (s : St)  : (trClose s).paused = s.paused :=
  congrArg Wire.paused (wire_trClose s)
@[simp] theorem trClose_frames (s : St)  : (trClose s).frames = s.frames :=
  congrArg Wire.frames (wire_trClose s)

theorem wire_srvCloseTransport (s : St)  : wire (srvCloseTransport s) = wire s := by
  unfold srvCloseTransport
  wire_auto
@[simp] theorem srvCloseTransport_cfg (s : St)  : (srvCloseTransport s).cfg = s.cfg :=
  congrArg Wire.cfg (wire_srvCloseTransport s)
@[simp] theorem srvCloseTransport_closed (s : St)  : (srvCloseTransport s).closed = s.closed :=
  congrArg Wire.closed (wire_srvCloseTransport s)
@[simp] theorem srvCloseTransport_wClosing (s : St)  : (srvCloseTransport s).wClosing = s.wClosing :=
  congrArg Wire.wClosing (wire_srvCloseTransport s)
@[simp] theorem srvCloseTransport_paused (s : St)  : (srvCloseTransport s).paused = s.paused :=
  congrArg Wire.paused (wire_srvCloseTransport s)
@[simp] theorem srvCloseTransport_frames (s : St)  : (srvCloseTransport s).frames = s.frames :=
  congrArg Wire.frames (wire_srvCloseTransport s)

theorem wire_srvSetCodeCloseTransport (s : St) (c : Nat) : wire (srvSetCodeCloseTransport s c) = wire s := by
  unfold srvSetCodeCloseTransport
  wire_auto
@[simp] theorem srvSetCodeCloseTransport_cfg (s : St) (c : Nat) : (srvSetCodeCloseTransport s c).cfg = s.cfg :=
  congrArg Wire.cfg (wire_srvSetCodeCloseTransport s c)
@[simp] theorem srvSetCodeCloseTransport_closed (s : St) (c : Nat) : (srvSetCodeCloseTransport s c).closed = s.closed :=
  congrArg Wire.closed (wire_srvSetCodeCloseTransport s c)
@[simp] theorem srvSetCodeCloseTransport_wClosing (s : St) (c : Nat) : (srvSetCodeCloseTransport s c).wClosing = s.wClosing :=
  congrArg Wire.wClosing (wire_srvSetCodeCloseTransport s c)
@[simp] theorem srvSetCodeCloseTransport_paused (s : St) (c : Nat) : (srvSetCodeCloseTransport s c).paused = s.paused :=
  congrArg Wire.paused (wire_srvSetCodeCloseTransport s c)
@[simp] theorem srvSetCodeCloseTransport_frames (s : St) (c : Nat) : (srvSetCodeCloseTransport s c).frames = s.frames :=
  congrArg Wire.frames (wire_srvSetCodeCloseTransport s c)

theorem wire_cliRespClose (s : St)  : wire (cliRespClose s) = wire s := by
  unfold cliRespClose
  wire_auto
@[simp] theorem cliRespClose_cfg (s : St)  : (cliRespClose s).cfg = s.cfg :=
  congrArg Wire.cfg (wire_cliRespClose s)
@[simp] theorem cliRespClose_closed (s : St)  : (cliRespClose s).closed = s.closed :=
  congrArg Wire.closed (wire_cliRespClose s)
@[simp] theorem cliRespClose_wClosing (s : St)  : (cliRespClose s).wClosing = s.wClosing :=
  congrArg Wire.wClosing (wire_cliRespClose s)
@[simp] theorem cliRespClose_paused (s : St)  : (cliRespClose s).paused = s.paused :=
  congrArg Wire.paused (wire_cliRespClose s)
@[simp] theorem cliRespClose_frames (s : St)  : (cliRespClose s).frames = s.frames :=
  congrArg Wire.frames (wire_cliRespClose s)

theorem wire_releaseWaiter (s : St)  : wire (releaseWaiter s) = wire s := by

  unfold releaseWaiter
  wire_auto
@[simp] theorem releaseWaiter_cfg (s : St)  : (releaseWaiter s).cfg = s.cfg :=
  congrArg Wire.cfg (wire_releaseWaiter s)
@[simp] theorem releaseWaiter_closed (s : St)  : (releaseWaiter s).closed = s.closed :=
  congrArg Wire.closed (wire_releaseWaiter s)
@[simp] theorem releaseWaiter_wClosing (s : St)  : (releaseWaiter s).wClosing = s.wClosing :=
  congrArg Wire.wClosing (wire_releaseWaiter s)
@[simp] theorem releaseWaiter_paused (s : St)  : (releaseWaiter s).paused = s.paused :=
  congrArg Wire.paused (wire_releaseWaiter s)
@[simp] theorem releaseWaiter_frames (s : St)  : (releaseWaiter s).frames = s.frames :=
  congrArg Wire.frames (wire_releaseWaiter s)

theorem wire_feedData (s : St) (m : Msg) : wire (feedData s m) = wire s := by
  unfold feedData
  wire_auto
@[simp] theorem feedData_cfg (s : St) (m : Msg) : (feedData s m).cfg = s.cfg :=
  congrArg Wire.cfg (wire_feedData s m)
@[simp] theorem feedData_closed (s : St) (m : Msg) : (feedData s m).closed = s.closed :=
  congrArg Wire.closed (wire_feedData s m)
@[simp] theorem feedData_wClosing (s : St) (m : Msg) : (feedData s m).wClosing = s.wClosing :=
  congrArg Wire.wClosing (wire_feedData s m)
@[simp] theorem feedData_paused (s : St) (m : Msg) : (feedData s m).paused = s.paused :=
  congrArg Wire.paused (wire_feedData s m)
@[simp] theorem feedData_frames (s : St) (m : Msg) : (feedData s m).frames = s.frames :=
  congrArg Wire.frames (wire_feedData s m)

theorem wire_feedEof (s : St)  : wire (feedEof s) = wire s := by
  unfold feedEof
  wire_auto
@[simp] theorem feedEof_cfg (s : St)  : (feedEof s).cfg = s.cfg :=
  congrArg Wire.cfg (wire_feedEof s)
@[simp] theorem feedEof_closed (s : St)  : (feedEof s).closed = s.closed :=
  congrArg Wire.closed (wire_feedEof s)
@[simp] theorem feedEof_wClosing (s : St)  : (feedEof s).wClosing = s.wClosing :=
  congrArg Wire.wClosing (wire_feedEof s)
@[simp] theorem feedEof_paused (s : St)  : (feedEof s).paused = s.paused :=
  congrArg Wire.paused (wire_feedEof s)
@[simp] theorem feedEof_frames (s : St)  : (feedEof s).frames = s.frames :=
  congrArg Wire.frames (wire_feedEof s)

theorem wire_queueSetException (s : St) (c : Nat) : wire (queueSetException s c) = wire s := by
  unfold queueSetException
  wire_auto
@[simp] theorem queueSetException_cfg (s : St) (c : Nat) : (queueSetException s c).cfg = s.cfg :=
  congrArg Wire.cfg (wire_queueSetException s c)
@[simp] theorem queueSetException_closed (s : St) (c : Nat) : (queueSetException s c).closed = s.closed :=
  congrArg Wire.closed (wire_queueSetException s c)
@[simp] theorem queueSetException_wClosing (s : St) (c : Nat) : (queueSetException s c).wClosing = s.wClosing :=
  congrArg Wire.wClosing (wire_queueSetException s c)
@[simp] theorem queueSetException_paused (s : St) (c : Nat) : (queueSetException s c).paused = s.paused :=
  congrArg Wire.paused (wire_queueSetException s c)
@[simp] theorem queueSetException_frames (s : St) (c : Nat) : (queueSetException s c).frames = s.frames :=
  congrArg Wire.frames (wire_queueSetException s c)

theorem wire_readFromBuffer (s : St)  : wire ((readFromBuffer s).1) = wire s := by
  unfold readFromBuffer
  wire_auto
@[simp] theorem readFromBuffer_cfg (s : St)  : ((readFromBuffer s).1).cfg = s.cfg :=
  congrArg Wire.cfg (wire_readFromBuffer s)
@[simp] theorem readFromBuffer_closed (s : St)  : ((readFromBuffer s).1).closed = s.closed :=
  congrArg Wire.closed (wire_readFromBuffer s)
@[simp] theorem readFromBuffer_wClosing (s : St)  : ((readFromBuffer s).1).wClosing = s.wClosing :=
  congrArg Wire.wClosing (wire_readFromBuffer s)
@[simp] theorem readFromBuffer_paused (s : St)  : ((readFromBuffer s).1).paused = s.paused :=
  congrArg Wire.paused (wire_readFromBuffer s)
@[simp] theorem readFromBuffer_frames (s : St)  : ((readFromBuffer s).1).frames = s.frames :=
  congrArg Wire.frames (wire_readFromBuffer s)

theorem wire_cancelTask (s : St) (t : Tid) : wire (cancelTask s t) = wire s := by
  unfold cancelTask
  wire_auto
@[simp] theorem cancelTask_cfg (s : St) (t : Tid) : (cancelTask s t).cfg = s.cfg :=
  congrArg Wire.cfg (wire_cancelTask s t)
@[simp] theorem cancelTask_closed (s : St) (t : Tid) : (cancelTask s t).closed = s.closed :=
  congrArg Wire.closed (wire_cancelTask s t)
@[simp] theorem cancelTask_wClosing (s : St) (t : Tid) : (cancelTask s t).wClosing = s.wClosing :=
  congrArg Wire.wClosing (wire_cancelTask s t)
@[simp] theorem cancelTask_paused (s : St) (t : Tid) : (cancelTask s t).paused = s.paused :=
  congrArg Wire.paused (wire_cancelTask s t)
@[simp] theorem cancelTask_frames (s : St) (t : Tid) : (cancelTask s t).frames = s.frames :=
  congrArg Wire.frames (wire_cancelTask s t)

theorem wire_cancelPong (s : St)  : wire (cancelPong s) = wire s := by
  unfold cancelPong
  wire_auto
@[simp] theorem cancelPong_cfg (s : St)  : (cancelPong s).cfg = s.cfg :=
  congrArg Wire.cfg (wire_cancelPong s)
@[simp] theorem cancelPong_closed (s : St)  : (cancelPong s).closed = s.closed :=
  congrArg Wire.closed (wire_cancelPong s)
@[simp] theorem cancelPong_wClosing (s : St)  : (cancelPong s).wClosing = s.wClosing :=
  congrArg Wire.wClosing (wire_cancelPong s)
@[simp] theorem cancelPong_paused (s : St)  : (cancelPong s).paused = s.paused :=
  congrArg Wire.paused (wire_cancelPong s)
@[simp] theorem cancelPong_frames (s : St)  : (cancelPong s).frames = s.frames :=
  congrArg Wire.frames (wire_cancelPong s)

theorem wire_cancelHeartbeat (s : St)  : wire (cancelHeartbeat s) = wire s := by
  unfold cancelHeartbeat
  wire_auto
@[simp] theorem cancelHeartbeat_cfg (s : St)  : (cancelHeartbeat s).cfg = s.cfg :=
  congrArg Wire.cfg (wire_cancelHeartbeat s)
@[simp] theorem cancelHeartbeat_closed (s : St)  : (cancelHeartbeat s).closed = s.closed :=
  congrArg Wire.closed (wire_cancelHeartbeat s)
@[simp] theorem cancelHeartbeat_wClosing (s : St)  : (cancelHeartbeat s).wClosing = s.wClosing :=
  congrArg Wire.wClosing (wire_cancelHeartbeat s)
@[simp] theorem cancelHeartbeat_paused (s : St)  : (cancelHeartbeat s).paused = s.paused :=
  congrArg Wire.paused (wire_cancelHeartbeat s)
@[simp] theorem cancelHeartbeat_frames (s : St)  : (cancelHeartbeat s).frames = s.frames :=
  congrArg Wire.frames (wire_cancelHeartbeat s)

theorem wire_srvSetClosing (s : St) (c : Nat) : wire (srvSetClosing s c) = wire s := by
  unfold srvSetClosing
  wire_auto
@[simp] theorem srvSetClosing_cfg (s : St) (c : Nat) : (srvSetClosing s c).cfg = s.cfg :=
  congrArg Wire.cfg (wire_srvSetClosing s c)
@[simp] theorem srvSetClosing_closed (s : St) (c : Nat) : (srvSetClosing s c).closed = s.closed :=
  congrArg Wire.closed (wire_srvSetClosing s c)
@[simp] theorem srvSetClosing_wClosing (s : St) (c : Nat) : (srvSetClosing s c).wClosing = s.wClosing :=
  congrArg Wire.wClosing (wire_srvSetClosing s c)
@[simp] theorem srvSetClosing_paused (s : St) (c : Nat) : (srvSetClosing s c).paused = s.paused :=
  congrArg Wire.paused (wire_srvSetClosing s c)
@[simp] theorem srvSetClosing_frames (s : St) (c : Nat) : (srvSetClosing s c).frames = s.frames :=
  congrArg Wire.frames (wire_srvSetClosing s c)

theorem wire_cliSetClosing (s : St)  : wire (cliSetClosing s) = wire s := by
  unfold cliSetClosing
  wire_auto
@[simp] theorem cliSetClosing_cfg (s : St)  : (cliSetClosing s).cfg = s.cfg :=
  congrArg Wire.cfg (wire_cliSetClosing s)
@[simp] theorem cliSetClosing_closed (s : St)  : (cliSetClosing s).closed = s.closed :=
  congrArg Wire.closed (wire_cliSetClosing s)
@[simp] theorem cliSetClosing_wClosing (s : St)  : (cliSetClosing s).wClosing = s.wClosing :=
  congrArg Wire.wClosing (wire_cliSetClosing s)
@[simp] theorem cliSetClosing_paused (s : St)  : (cliSetClosing s).paused = s.paused :=
  congrArg Wire.paused (wire_cliSetClosing s)
@[simp] theorem cliSetClosing_frames (s : St)  : (cliSetClosing s).frames = s.frames :=
  congrArg Wire.frames (wire_cliSetClosing s)

theorem wire_resetHeartbeat (s : St)  : wire (resetHeartbeat s) = wire s := by
  unfold resetHeartbeat
  wire_auto
@[simp] theorem resetHeartbeat_cfg (s : St)  : (resetHeartbeat s).cfg = s.cfg :=
  congrArg Wire.cfg (wire_resetHeartbeat s)
@[simp] theorem resetHeartbeat_closed (s : St)  : (resetHeartbeat s).closed = s.closed :=
  congrArg Wire.closed (wire_resetHeartbeat s)
@[simp] theorem resetHeartbeat_wClosing (s : St)  : (resetHeartbeat s).wClosing = s.wClosing :=
  congrArg Wire.wClosing (wire_resetHeartbeat s)
@[simp] theorem resetHeartbeat_paused (s : St)  : (resetHeartbeat s).paused = s.paused :=
  congrArg Wire.paused (wire_resetHeartbeat s)
@[simp] theorem resetHeartbeat_frames (s : St)  : (resetHeartbeat s).frames = s.frames :=
  congrArg Wire.frames (wire_resetHeartbeat s)

theorem wire_onDataReceived (s : St)  : wire (onDataReceived s) = wire s := by
  unfold onDataReceived
  wire_auto
@[simp] theorem onDataReceived_cfg (s : St)  : (onDataReceived s).cfg = s.cfg :=
  congrArg Wire.cfg (wire_onDataReceived s)
@[simp] theorem onDataReceived_closed (s : St)  : (onDataReceived s).closed = s.closed :=
  congrArg Wire.closed (wire_onDataReceived s)
@[simp] theorem onDataReceived_wClosing (s : St)  : (onDataReceived s).wClosing = s.wClosing :=
  congrArg Wire.wClosing (wire_onDataReceived s)
@[simp] theorem onDataReceived_paused (s : St)  : (onDataReceived s).paused = s.paused :=
  congrArg Wire.paused (wire_onDataReceived s)
@[simp] theorem onDataReceived_frames (s : St)  : (onDataReceived s).frames = s.frames :=
  congrArg Wire.frames (wire_onDataReceived s)

theorem wire_drainHelper (s : St)  : wire ((drainHelper s).1) = wire s := by
  unfold drainHelper
  wire_auto
@[simp] theorem drainHelper_cfg (s : St)  : ((drainHelper s).1).cfg = s.cfg :=
  congrArg Wire.cfg (wire_drainHelper s)
@[simp] theorem drainHelper_closed (s : St)  : ((drainHelper s).1).closed = s.closed :=
  congrArg Wire.closed (wire_drainHelper s)
@[simp] theorem drainHelper_wClosing (s : St)  : ((drainHelper s).1).wClosing = s.wClosing :=
  congrArg Wire.wClosing (wire_drainHelper s)
@[simp] theorem drainHelper_paused (s : St)  : ((drainHelper s).1).paused = s.paused :=
  congrArg Wire.paused (wire_drainHelper s)
@[simp] theorem drainHelper_frames (s : St)  : ((drainHelper s).1).frames = s.frames :=
  congrArg Wire.frames (wire_drainHelper s)

theorem wire_park (s : St) (t : Tid) (pc : Pc) : wire (park s t pc) = wire s := by
  unfold park
  wire_auto
@[simp] theorem park_cfg (s : St) (t : Tid) (pc : Pc) : (park s t pc).cfg = s.cfg :=
  congrArg Wire.cfg (wire_park s t pc)
@[simp] theorem park_closed (s : St) (t : Tid) (pc : Pc) : (park s t pc).closed = s.closed :=
  congrArg Wire.closed (wire_park s t pc)
@[simp] theorem park_wClosing (s : St) (t : Tid) (pc : Pc) : (park s t pc).wClosing = s.wClosing :=
  congrArg Wire.wClosing (wire_park s t pc)
@[simp] theorem park_paused (s : St) (t : Tid) (pc : Pc) : (park s t pc).paused = s.paused :=
  congrArg Wire.paused (wire_park s t pc)
@[simp] theorem park_frames (s : St) (t : Tid) (pc : Pc) : (park s t pc).frames = s.frames :=
  congrArg Wire.frames (wire_park s t pc)

theorem wire_finish (s : St) (t : Tid) (o : Outcome) : wire (finish s t o) = wire s := by
  unfold finish
  wire_auto
@[simp] theorem finish_cfg (s : St) (t : Tid) (o : Outcome) : (finish s t o).cfg = s.cfg :=
  congrArg Wire.cfg (wire_finish s t o)
@[simp] theorem finish_closed (s : St) (t : Tid) (o : Outcome) : (finish s t o).closed = s.closed :=
  congrArg Wire.closed (wire_finish s t o)
@[simp] theorem finish_wClosing (s : St) (t : Tid) (o : Outcome) : (finish s t o).wClosing = s.wClosing :=
  congrArg Wire.wClosing (wire_finish s t o)
@[simp] theorem finish_paused (s : St) (t : Tid) (o : Outcome) : (finish s t o).paused = s.paused :=
  congrArg Wire.paused (wire_finish s t o)
@[simp] theorem finish_frames (s : St) (t : Tid) (o : Outcome) : (finish s t o).frames = s.frames :=
  congrArg Wire.frames (wire_finish s t o)

theorem wire_exitTmo (s : St) (t : Tid) (e : Option Exc) : wire ((exitTmo s t e).1) = wire s := by
  unfold exitTmo
  wire_auto
@[simp] theorem exitTmo_cfg (s : St) (t : Tid) (e : Option Exc) : ((exitTmo s t e).1).cfg = s.cfg :=
  congrArg Wire.cfg (wire_exitTmo s t e)
@[simp] theorem exitTmo_closed (s : St) (t : Tid) (e : Option Exc) : ((exitTmo s t e).1).closed = s.closed :=
  congrArg Wire.closed (wire_exitTmo s t e)
@[simp] theorem exitTmo_wClosing (s : St) (t : Tid) (e : Option Exc) : ((exitTmo s t e).1).wClosing = s.wClosing :=
  congrArg Wire.wClosing (wire_exitTmo s t e)
@[simp] theorem exitTmo_paused (s : St) (t : Tid) (e : Option Exc) : ((exitTmo s t e).1).paused = s.paused :=
  congrArg Wire.paused (wire_exitTmo s t e)
@[simp] theorem exitTmo_frames (s : St) (t : Tid) (e : Option Exc) : ((exitTmo s t e).1).frames = s.frames :=
  congrArg Wire.frames (wire_exitTmo s t e)

theorem wire_armTmo (s : St) (t : Tid) (d : Nat) : wire (armTmo s t d) = wire s := by
  unfold armTmo
  wire_auto
@[simp] theorem armTmo_cfg (s : St) (t : Tid) (d : Nat) : (armTmo s t d).cfg = s.cfg :=
  congrArg Wire.cfg (wire_armTmo s t d)
@[simp] theorem armTmo_closed (s : St) (t : Tid) (d : Nat) : (armTmo s t d).closed = s.closed :=
  congrArg Wire.closed (wire_armTmo s t d)
@[simp] theorem armTmo_wClosing (s : St) (t : Tid) (d : Nat) : (armTmo s t d).wClosing = s.wClosing :=
  congrArg Wire.wClosing (wire_armTmo s t d)
@[simp] theorem armTmo_paused (s : St) (t : Tid) (d : Nat) : (armTmo s t d).paused = s.paused :=
  congrArg Wire.paused (wire_armTmo s t d)
@[simp] theorem armTmo_frames (s : St) (t : Tid) (d : Nat) : (armTmo s t d).frames = s.frames :=
  congrArg Wire.frames (wire_armTmo s t d)

theorem wire_closeReturn (s : St) (t : Tid) (r : Except Exc Bool) : wire (closeReturn s t r) = wire s := by
  unfold closeReturn
  wire_auto
@[simp] theorem closeReturn_cfg (s : St) (t : Tid) (r : Except Exc Bool) : (closeReturn s t r).cfg = s.cfg :=
  congrArg Wire.cfg (wire_closeReturn s t r)
@[simp] theorem closeReturn_closed (s : St) (t : Tid) (r : Except Exc Bool) : (closeReturn s t r).closed = s.closed :=
  congrArg Wire.closed (wire_closeReturn s t r)
@[simp] theorem closeReturn_wClosing (s : St) (t : Tid) (r : Except Exc Bool) : (closeReturn s t r).wClosing = s.wClosing :=
  congrArg Wire.wClosing (wire_closeReturn s t r)
@[simp] theorem closeReturn_paused (s : St) (t : Tid) (r : Except Exc Bool) : (closeReturn s t r).paused = s.paused :=
  congrArg Wire.paused (wire_closeReturn s t r)
@[simp] theorem closeReturn_frames (s : St) (t : Tid) (r : Except Exc Bool) : (closeReturn s t r).frames = s.frames :=
  congrArg Wire.frames (wire_closeReturn s t r)

theorem wire_recvFinally (s : St)  : wire (recvFinally s) = wire s := by
  unfold recvFinally
  wire_auto
@[simp] theorem recvFinally_cfg (s : St)  : (recvFinally s).cfg = s.cfg :=
  congrArg Wire.cfg (wire_recvFinally s)
@[simp] theorem recvFinally_closed (s : St)  : (recvFinally s).closed = s.closed :=
  congrArg Wire.closed (wire_recvFinally s)
@[simp] theorem recvFinally_wClosing (s : St)  : (recvFinally s).wClosing = s.wClosing :=
  congrArg Wire.wClosing (wire_recvFinally s)
@[simp] theorem recvFinally_paused (s : St)  : (recvFinally s).paused = s.paused :=
  congrArg Wire.paused (wire_recvFinally s)
@[simp] theorem recvFinally_frames (s : St)  : (recvFinally s).frames = s.frames :=
  congrArg Wire.frames (wire_recvFinally s)

theorem wire_baseConnLost (s : St) (e : Bool) : wire (baseConnLost s e) = wire s := by
  unfold baseConnLost
  wire_auto
@[simp] theorem baseConnLost_cfg (s : St) (e : Bool) : (baseConnLost s e).cfg = s.cfg :=
  congrArg Wire.cfg (wire_baseConnLost s e)
@[simp] theorem baseConnLost_closed (s : St) (e : Bool) : (baseConnLost s e).closed = s.closed :=
  congrArg Wire.closed (wire_baseConnLost s e)
@[simp] theorem baseConnLost_wClosing (s : St) (e : Bool) : (baseConnLost s e).wClosing = s.wClosing :=
  congrArg Wire.wClosing (wire_baseConnLost s e)
@[simp] theorem baseConnLost_paused (s : St) (e : Bool) : (baseConnLost s e).paused = s.paused :=
  congrArg Wire.paused (wire_baseConnLost s e)
@[simp] theorem baseConnLost_frames (s : St) (e : Bool) : (baseConnLost s e).frames = s.frames :=
  congrArg Wire.frames (wire_baseConnLost s e)

theorem wire_connLost (s : St) (e : Bool) : wire (connLost s e) = wire s := by
  unfold connLost
  wire_auto
@[simp] theorem connLost_cfg (s : St) (e : Bool) : (connLost s e).cfg = s.cfg :=
  congrArg Wire.cfg (wire_connLost s e)
@[simp] theorem connLost_closed (s : St) (e : Bool) : (connLost s e).closed = s.closed :=
  congrArg Wire.closed (wire_connLost s e)
@[simp] theorem connLost_wClosing (s : St) (e : Bool) : (connLost s e).wClosing = s.wClosing :=
  congrArg Wire.wClosing (wire_connLost s e)
@[simp] theorem connLost_paused (s : St) (e : Bool) : (connLost s e).paused = s.paused :=
  congrArg Wire.paused (wire_connLost s e)
@[simp] theorem connLost_frames (s : St) (e : Bool) : (connLost s e).frames = s.frames :=
  congrArg Wire.frames (wire_connLost s e)

theorem wire_fireDue (s : St)  : wire (fireDue s) = wire s := by
  unfold fireDue
  wire_auto
@[simp] theorem fireDue_cfg (s : St)  : (fireDue s).cfg = s.cfg :=
  congrArg Wire.cfg (wire_fireDue s)
@[simp] theorem fireDue_closed (s : St)  : (fireDue s).closed = s.closed :=
  congrArg Wire.closed (wire_fireDue s)
@[simp] theorem fireDue_wClosing (s : St)  : (fireDue s).wClosing = s.wClosing :=
  congrArg Wire.wClosing (wire_fireDue s)
@[simp] theorem fireDue_paused (s : St)  : (fireDue s).paused = s.paused :=
  congrArg Wire.paused (wire_fireDue s)
@[simp] theorem fireDue_frames (s : St)  : (fireDue s).frames = s.frames :=
  congrArg Wire.frames (wire_fireDue s)

theorem wire_peerFrame (s : St) (f : PeerFrame) : wire (peerFrame s f) = wire s := by
  unfold peerFrame
  wire_auto
@[simp] theorem peerFrame_cfg (s : St) (f : PeerFrame) : (peerFrame s f).cfg = s.cfg :=
  congrArg Wire.cfg (wire_peerFrame s f)
@[simp] theorem peerFrame_closed (s : St) (f : PeerFrame) : (peerFrame s f).closed = s.closed :=
  congrArg Wire.closed (wire_peerFrame s f)
@[simp] theorem peerFrame_wClosing (s : St) (f : PeerFrame) : (peerFrame s f).wClosing = s.wClosing :=
  congrArg Wire.wClosing (wire_peerFrame s f)
@[simp] theorem peerFrame_paused (s : St) (f : PeerFrame) : (peerFrame s f).paused = s.paused :=
  congrArg Wire.paused (wire_peerFrame s f)
@[simp] theorem peerFrame_frames (s : St) (f : PeerFrame) : (peerFrame s f).frames = s.frames :=
  congrArg Wire.frames (wire_peerFrame s f)

theorem wire_srvCloseExc1 (s : St) (t : Tid) (e : Exc) : wire (srvCloseExc1 s t e) = wire s := by
  unfold srvCloseExc1
  wire_auto
@[simp] theorem srvCloseExc1_cfg (s : St) (t : Tid) (e : Exc) : (srvCloseExc1 s t e).cfg = s.cfg :=
  congrArg Wire.cfg (wire_srvCloseExc1 s t e)
@[simp] theorem srvCloseExc1_closed (s : St) (t : Tid) (e : Exc) : (srvCloseExc1 s t e).closed = s.closed :=
  congrArg Wire.closed (wire_srvCloseExc1 s t e)
@[simp] theorem srvCloseExc1_wClosing (s : St) (t : Tid) (e : Exc) : (srvCloseExc1 s t e).wClosing = s.wClosing :=
  congrArg Wire.wClosing (wire_srvCloseExc1 s t e)
@[simp] theorem srvCloseExc1_paused (s : St) (t : Tid) (e : Exc) : (srvCloseExc1 s t e).paused = s.paused :=
  congrArg Wire.paused (wire_srvCloseExc1 s t e)
@[simp] theorem srvCloseExc1_frames (s : St) (t : Tid) (e : Exc) : (srvCloseExc1 s t e).frames = s.frames :=
  congrArg Wire.frames (wire_srvCloseExc1 s t e)

theorem wire_srvCloseExc2 (s : St) (t : Tid) (e : Exc) : wire (srvCloseExc2 s t e) = wire s := by
  unfold srvCloseExc2
  wire_auto
@[simp] theorem srvCloseExc2_cfg (s : St) (t : Tid) (e : Exc) : (srvCloseExc2 s t e).cfg = s.cfg :=
  congrArg Wire.cfg (wire_srvCloseExc2 s t e)
@[simp] theorem srvCloseExc2_closed (s : St) (t : Tid) (e : Exc) : (srvCloseExc2 s t e).closed = s.closed :=
  congrArg Wire.closed (wire_srvCloseExc2 s t e)
@[simp] theorem srvCloseExc2_wClosing (s : St) (t : Tid) (e : Exc) : (srvCloseExc2 s t e).wClosing = s.wClosing :=
  congrArg Wire.wClosing (wire_srvCloseExc2 s t e)
@[simp] theorem srvCloseExc2_paused (s : St) (t : Tid) (e : Exc) : (srvCloseExc2 s t e).paused = s.paused :=
  congrArg Wire.paused (wire_srvCloseExc2 s t e)
@[simp] theorem srvCloseExc2_frames (s : St) (t : Tid) (e : Exc) : (srvCloseExc2 s t e).frames = s.frames :=
  congrArg Wire.frames (wire_srvCloseExc2 s t e)

theorem wire_srvCloseRead (s : St) (t : Tid) : wire (srvCloseRead s t) = wire s := by
  unfold srvCloseRead
  wire_auto
@[simp] theorem srvCloseRead_cfg (s : St) (t : Tid) : (srvCloseRead s t).cfg = s.cfg :=
  congrArg Wire.cfg (wire_srvCloseRead s t)
@[simp] theorem srvCloseRead_closed (s : St) (t : Tid) : (srvCloseRead s t).closed = s.closed :=
  congrArg Wire.closed (wire_srvCloseRead s t)
@[simp] theorem srvCloseRead_wClosing (s : St) (t : Tid) : (srvCloseRead s t).wClosing = s.wClosing :=
  congrArg Wire.wClosing (wire_srvCloseRead s t)
@[simp] theorem srvCloseRead_paused (s : St) (t : Tid) : (srvCloseRead s t).paused = s.paused :=
  congrArg Wire.paused (wire_srvCloseRead s t)
@[simp] theorem srvCloseRead_frames (s : St) (t : Tid) : (srvCloseRead s t).frames = s.frames :=
  congrArg Wire.frames (wire_srvCloseRead s t)

theorem wire_srvCloseAfterWait (s : St) (t : Tid) : wire (srvCloseAfterWait s t) = wire s := by
  unfold srvCloseAfterWait
  wire_auto
@[simp] theorem srvCloseAfterWait_cfg (s : St) (t : Tid) : (srvCloseAfterWait s t).cfg = s.cfg :=
  congrArg Wire.cfg (wire_srvCloseAfterWait s t)
@[simp] theorem srvCloseAfterWait_closed (s : St) (t : Tid) : (srvCloseAfterWait s t).closed = s.closed :=
  congrArg Wire.closed (wire_srvCloseAfterWait s t)
@[simp] theorem srvCloseAfterWait_wClosing (s : St) (t : Tid) : (srvCloseAfterWait s t).wClosing = s.wClosing :=
  congrArg Wire.wClosing (wire_srvCloseAfterWait s t)
@[simp] theorem srvCloseAfterWait_paused (s : St) (t : Tid) : (srvCloseAfterWait s t).paused = s.paused :=
  congrArg Wire.paused (wire_srvCloseAfterWait s t)
@[simp] theorem srvCloseAfterWait_frames (s : St) (t : Tid) : (srvCloseAfterWait s t).frames = s.frames :=
  congrArg Wire.frames (wire_srvCloseAfterWait s t)

theorem wire_srvCloseAfterDrain (s : St) (t : Tid) : wire (srvCloseAfterDrain s t) = wire s := by
  unfold srvCloseAfterDrain
  wire_auto
@[simp] theorem srvCloseAfterDrain_cfg (s : St) (t : Tid) : (srvCloseAfterDrain s t).cfg = s.cfg :=
  congrArg Wire.cfg (wire_srvCloseAfterDrain s t)
@[simp] theorem srvCloseAfterDrain_closed (s : St) (t : Tid) : (srvCloseAfterDrain s t).closed = s.closed :=
  congrArg Wire.closed (wire_srvCloseAfterDrain s t)
@[simp] theorem srvCloseAfterDrain_wClosing (s : St) (t : Tid) : (srvCloseAfterDrain s t).wClosing = s.wClosing :=
  congrArg Wire.wClosing (wire_srvCloseAfterDrain s t)
@[simp] theorem srvCloseAfterDrain_paused (s : St) (t : Tid) : (srvCloseAfterDrain s t).paused = s.paused :=
  congrArg Wire.paused (wire_srvCloseAfterDrain s t)
@[simp] theorem srvCloseAfterDrain_frames (s : St) (t : Tid) : (srvCloseAfterDrain s t).frames = s.frames :=
  congrArg Wire.frames (wire_srvCloseAfterDrain s t)

theorem wire_srvCloseAfterFrame (s : St) (t : Tid) : wire (srvCloseAfterFrame s t) = wire s := by
  unfold srvCloseAfterFrame
  wire_auto
@[simp] theorem srvCloseAfterFrame_cfg (s : St) (t : Tid) : (srvCloseAfterFrame s t).cfg = s.cfg :=
  congrArg Wire.cfg (wire_srvCloseAfterFrame s t)
@[simp] theorem srvCloseAfterFrame_closed (s : St) (t : Tid) : (srvCloseAfterFrame s t).closed = s.closed :=
  congrArg Wire.closed (wire_srvCloseAfterFrame s t)
@[simp] theorem srvCloseAfterFrame_wClosing (s : St) (t : Tid) : (srvCloseAfterFrame s t).wClosing = s.wClosing :=
  congrArg Wire.wClosing (wire_srvCloseAfterFrame s t)
@[simp] theorem srvCloseAfterFrame_paused (s : St) (t : Tid) : (srvCloseAfterFrame s t).paused = s.paused :=
  congrArg Wire.paused (wire_srvCloseAfterFrame s t)
@[simp] theorem srvCloseAfterFrame_frames (s : St) (t : Tid) : (srvCloseAfterFrame s t).frames = s.frames :=
  congrArg Wire.frames (wire_srvCloseAfterFrame s t)

theorem wire_cliCloseExc (s : St) (t : Tid) (e : Exc) : wire (cliCloseExc s t e) = wire s := by
  unfold cliCloseExc
  wire_auto
@[simp] theorem cliCloseExc_cfg (s : St) (t : Tid) (e : Exc) : (cliCloseExc s t e).cfg = s.cfg :=
  congrArg Wire.cfg (wire_cliCloseExc s t e)
@[simp] theorem cliCloseExc_closed (s : St) (t : Tid) (e : Exc) : (cliCloseExc s t e).closed = s.closed :=
  congrArg Wire.closed (wire_cliCloseExc s t e)
@[simp] theorem cliCloseExc_wClosing (s : St) (t : Tid) (e : Exc) : (cliCloseExc s t e).wClosing = s.wClosing :=
  congrArg Wire.wClosing (wire_cliCloseExc s t e)
@[simp] theorem cliCloseExc_paused (s : St) (t : Tid) (e : Exc) : (cliCloseExc s t e).paused = s.paused :=
  congrArg Wire.paused (wire_cliCloseExc s t e)
@[simp] theorem cliCloseExc_frames (s : St) (t : Tid) (e : Exc) : (cliCloseExc s t e).frames = s.frames :=
  congrArg Wire.frames (wire_cliCloseExc s t e)

theorem wire_cliCloseRead (s : St) (t : Tid) : wire (cliCloseRead s t) = wire s := by
  unfold cliCloseRead
  wire_auto
@[simp] theorem cliCloseRead_cfg (s : St) (t : Tid) : (cliCloseRead s t).cfg = s.cfg :=
  congrArg Wire.cfg (wire_cliCloseRead s t)
@[simp] theorem cliCloseRead_closed (s : St) (t : Tid) : (cliCloseRead s t).closed = s.closed :=
  congrArg Wire.closed (wire_cliCloseRead s t)
@[simp] theorem cliCloseRead_wClosing (s : St) (t : Tid) : (cliCloseRead s t).wClosing = s.wClosing :=
  congrArg Wire.wClosing (wire_cliCloseRead s t)
@[simp] theorem cliCloseRead_paused (s : St) (t : Tid) : (cliCloseRead s t).paused = s.paused :=
  congrArg Wire.paused (wire_cliCloseRead s t)
@[simp] theorem cliCloseRead_frames (s : St) (t : Tid) : (cliCloseRead s t).frames = s.frames :=
  congrArg Wire.frames (wire_cliCloseRead s t)

theorem wire_cliCloseAfterFrame (s : St) (t : Tid) : wire (cliCloseAfterFrame s t) = wire s := by
  unfold cliCloseAfterFrame
  wire_auto
@[simp] theorem cliCloseAfterFrame_cfg (s : St) (t : Tid) : (cliCloseAfterFrame s t).cfg = s.cfg :=
  congrArg Wire.cfg (wire_cliCloseAfterFrame s t)
@[simp] theorem cliCloseAfterFrame_closed (s : St) (t : Tid) : (cliCloseAfterFrame s t).closed = s.closed :=
  congrArg Wire.closed (wire_cliCloseAfterFrame s t)
@[simp] theorem cliCloseAfterFrame_wClosing (s : St) (t : Tid) : (cliCloseAfterFrame s t).wClosing = s.wClosing :=
  congrArg Wire.wClosing (wire_cliCloseAfterFrame s t)
@[simp] theorem cliCloseAfterFrame_paused (s : St) (t : Tid) : (cliCloseAfterFrame s t).paused = s.paused :=
  congrArg Wire.paused (wire_cliCloseAfterFrame s t)
@[simp] theorem cliCloseAfterFrame_frames (s : St) (t : Tid) : (cliCloseAfterFrame s t).frames = s.frames :=
  congrArg Wire.frames (wire_cliCloseAfterFrame s t)

end Aio.C13
