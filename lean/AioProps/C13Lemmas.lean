import AioModel.C13
/-!
# C13 — helper lemmas

The wire-level clauses of C13 only depend on five components of the state
(`cfg`, `closed`, `wClosing`, `paused`, `frames`): `wire s`.  Most model functions leave them
untouched (`wire (f s) = wire s`, section "class 1", mechanically generated); the few that do not
(`sendFrame`, `setClosed`, the explicit `wClosing := true` of `WebSocketWriter.close`'s `finally`)
are treated one by one.
-/
namespace Aio.C13
open Aio

structure Wire where
  cfg : Cfg
  closed : Bool
  wClosing : Bool
  paused : Bool
  frames : List Frame

def wire (s : St) : Wire := ⟨s.cfg, s.closed, s.wClosing, s.paused, s.frames⟩

/-- split every `if`/`match` of the goal, then close each leaf by computing the five fields -/
macro "wire_auto" : tactic =>
  `(tactic| ((repeat' (first | split | (simp only []; split))) <;> simp [wire]))

theorem wire_wakeAll_aux (s : St) (ts : List Tid) (v : FutSt) : wire (wakeAll s ts v) = wire s := by
  unfold wakeAll
  induction ts generalizing s with
  | nil => rfl
  | cons t ts ih => simp only [List.foldl]; rw [ih]; rfl

/-! ## class 1: functions that do not touch the wire components -/

theorem wire_setT (s : St) (t : Tid) (f : Task → Task) : wire (setT s t f) = wire s := rfl
@[simp] theorem setT_cfg (s : St) (t : Tid) (f : Task → Task) : (setT s t f).cfg = s.cfg :=
  congrArg Wire.cfg (wire_setT s t f)
@[simp] theorem setT_closed (s : St) (t : Tid) (f : Task → Task) : (setT s t f).closed = s.closed :=
  congrArg Wire.closed (wire_setT s t f)
@[simp] theorem setT_wClosing (s : St) (t : Tid) (f : Task → Task) : (setT s t f).wClosing = s.wClosing :=
  congrArg Wire.wClosing (wire_setT s t f)
@[simp] theorem setT_paused (s : St) (t : Tid) (f : Task → Task) : (setT s t f).paused = s.paused :=
  congrArg Wire.paused (wire_setT s t f)
@[simp] theorem setT_frames (s : St) (t : Tid) (f : Task → Task) : (setT s t f).frames = s.frames :=
  congrArg Wire.frames (wire_setT s t f)

theorem wire_wakeTask (s : St) (t : Tid) (v : FutSt) : wire (wakeTask s t v) = wire s := rfl
@[simp] theorem wakeTask_cfg (s : St) (t : Tid) (v : FutSt) : (wakeTask s t v).cfg = s.cfg :=
  congrArg Wire.cfg (wire_wakeTask s t v)
@[simp] theorem wakeTask_closed (s : St) (t : Tid) (v : FutSt) : (wakeTask s t v).closed = s.closed :=
  congrArg Wire.closed (wire_wakeTask s t v)
@[simp] theorem wakeTask_wClosing (s : St) (t : Tid) (v : FutSt) : (wakeTask s t v).wClosing = s.wClosing :=
  congrArg Wire.wClosing (wire_wakeTask s t v)
@[simp] theorem wakeTask_paused (s : St) (t : Tid) (v : FutSt) : (wakeTask s t v).paused = s.paused :=
  congrArg Wire.paused (wire_wakeTask s t v)
@[simp] theorem wakeTask_frames (s : St) (t : Tid) (v : FutSt) : (wakeTask s t v).frames = s.frames :=
  congrArg Wire.frames (wire_wakeTask s t v)

theorem wire_wakeAll (s : St) (ts : List Tid) (v : FutSt) : wire (wakeAll s ts v) = wire s := wire_wakeAll_aux s ts v
@[simp] theorem wakeAll_cfg (s : St) (ts : List Tid) (v : FutSt) : (wakeAll s ts v).cfg = s.cfg :=
  congrArg Wire.cfg (wire_wakeAll s ts v)
@[simp] theorem wakeAll_closed (s : St) (ts : List Tid) (v : FutSt) : (wakeAll s ts v).closed = s.closed :=
  congrArg Wire.closed (wire_wakeAll s ts v)
@[simp] theorem wakeAll_wClosing (s : St) (ts : List Tid) (v : FutSt) : (wakeAll s ts v).wClosing = s.wClosing :=
  congrArg Wire.wClosing (wire_wakeAll s ts v)
@[simp] theorem wakeAll_paused (s : St) (ts : List Tid) (v : FutSt) : (wakeAll s ts v).paused = s.paused :=
  congrArg Wire.paused (wire_wakeAll s ts v)
@[simp] theorem wakeAll_frames (s : St) (ts : List Tid) (v : FutSt) : (wakeAll s ts v).frames = s.frames :=
  congrArg Wire.frames (wire_wakeAll s ts v)

theorem wire_cancelCb (s : St) (cb : Cb) : wire (cancelCb s cb) = wire s := rfl
@[simp] theorem cancelCb_cfg (s : St) (cb : Cb) : (cancelCb s cb).cfg = s.cfg :=
  congrArg Wire.cfg (wire_cancelCb s cb)
@[simp] theorem cancelCb_closed (s : St) (cb : Cb) : (cancelCb s cb).closed = s.closed :=
  congrArg Wire.closed (wire_cancelCb s cb)
@[simp] theorem cancelCb_wClosing (s : St) (cb : Cb) : (cancelCb s cb).wClosing = s.wClosing :=
  congrArg Wire.wClosing (wire_cancelCb s cb)
@[simp] theorem cancelCb_paused (s : St) (cb : Cb) : (cancelCb s cb).paused = s.paused :=
  congrArg Wire.paused (wire_cancelCb s cb)
@[simp] theorem cancelCb_frames (s : St) (cb : Cb) : (cancelCb s cb).frames = s.frames :=
  congrArg Wire.frames (wire_cancelCb s cb)

theorem wire_trClose (s : St)  : wire (trClose s) = wire s := by
  unfold trClose
  wire_auto
@[simp] theorem trClose_cfg (s : St)  : (trClose s).cfg = s.cfg :=
  congrArg Wire.cfg (wire_trClose s)
@[simp] theorem trClose_closed (s : St)  : (trClose s).closed = s.closed :=
  congrArg Wire.closed (wire_trClose s)
@[simp] theorem trClose_wClosing (s : St)  : (trClose s).wClosing = s.wClosing :=
  congrArg Wire.wClosing (wire_trClose s)
@[simp] theorem trClose_paused (s : St)  : (trClose s).paused = s.paused :=
  congrArg Wire.paused (wire_trClose s)
@[simp] theorem trClose_frames (s : St)  : (trClose s).frames = s.frames :=
  congrArg Wire.frames (wire_trClose s)

theorem wire_srvCloseTransport (s : St)  : wire (srvCloseTransport s) = wire s := by
  unfold srvCloseTransport
  wire_auto
@[simp] theorem srvCloseTransport_cfg (s : St)  : (srvCloseTransport s).cfg = s.cfg :=
  congrArg Wire.cfg (wire_srvCloseTransport s)
@[simp] theorem srvCloseTransport_closed (s : St)  : (srvCloseTransport s).closed = s.closed :=
  congrArg Wire.closed (wire_srvCloseTransport s)
@[simp] theorem srvCloseTransport_wClosing (s : St)  : (srvCloseTransport s).wClosing = s.wClosing :=
  congrArg Wire.wClosing (wire_srvCloseTransport s)
@[simp] theorem srvCloseTransport_paused (s : St)  : (srvCloseTransport s).paused = s.paused :=
  congrArg Wire.paused (wire_srvCloseTransport s)
@[simp] theorem srvCloseTransport_frames (s : St)  : (srvCloseTransport s).frames = s.frames :=
  congrArg Wire.frames (wire_srvCloseTransport s)

theorem wire_srvSetCodeCloseTransport (s : St) (c : Nat) : wire (srvSetCodeCloseTransport s c) = wire s := by
  unfold srvSetCodeCloseTransport
  wire_auto
@[simp] theorem srvSetCodeCloseTransport_cfg (s : St) (c : Nat) : (srvSetCodeCloseTransport s c).cfg = s.cfg :=
  congrArg Wire.cfg (wire_srvSetCodeCloseTransport s c)
@[simp] theorem srvSetCodeCloseTransport_closed (s : St) (c : Nat) : (srvSetCodeCloseTransport s c).closed = s.closed :=
  congrArg Wire.closed (wire_srvSetCodeCloseTransport s c)
@[simp] theorem srvSetCodeCloseTransport_wClosing (s : St) (c : Nat) : (srvSetCodeCloseTransport s c).wClosing = s.wClosing :=
  congrArg Wire.wClosing (wire_srvSetCodeCloseTransport s c)
@[simp] theorem srvSetCodeCloseTransport_paused (s : St) (c : Nat) : (srvSetCodeCloseTransport s c).paused = s.paused :=
  congrArg Wire.paused (wire_srvSetCodeCloseTransport s c)
@[simp] theorem srvSetCodeCloseTransport_frames (s : St) (c : Nat) : (srvSetCodeCloseTransport s c).frames = s.frames :=
  congrArg Wire.frames (wire_srvSetCodeCloseTransport s c)

theorem wire_cliRespClose (s : St)  : wire (cliRespClose s) = wire s := by
  unfold cliRespClose
  wire_auto
@[simp] theorem cliRespClose_cfg (s : St)  : (cliRespClose s).cfg = s.cfg :=
  congrArg Wire.cfg (wire_cliRespClose s)
@[simp] theorem cliRespClose_closed (s : St)  : (cliRespClose s).closed = s.closed :=
  congrArg Wire.closed (wire_cliRespClose s)
@[simp] theorem cliRespClose_wClosing (s : St)  : (cliRespClose s).wClosing = s.wClosing :=
  congrArg Wire.wClosing (wire_cliRespClose s)
@[simp] theorem cliRespClose_paused (s : St)  : (cliRespClose s).paused = s.paused :=
  congrArg Wire.paused (wire_cliRespClose s)
@[simp] theorem cliRespClose_frames (s : St)  : (cliRespClose s).frames = s.frames :=
  congrArg Wire.frames (wire_cliRespClose s)

theorem wire_releaseWaiter (s : St)  : wire (releaseWaiter s) = wire s := by

  unfold releaseWaiter
  wire_auto
@[simp] theorem releaseWaiter_cfg (s : St)  : (releaseWaiter s).cfg = s.cfg :=
  congrArg Wire.cfg (wire_releaseWaiter s)
@[simp] theorem releaseWaiter_closed (s : St)  : (releaseWaiter s).closed = s.closed :=
  congrArg Wire.closed (wire_releaseWaiter s)
@[simp] theorem releaseWaiter_wClosing (s : St)  : (releaseWaiter s).wClosing = s.wClosing :=
  congrArg Wire.wClosing (wire_releaseWaiter s)
@[simp] theorem releaseWaiter_paused (s : St)  : (releaseWaiter s).paused = s.paused :=
  congrArg Wire.paused (wire_releaseWaiter s)
@[simp] theorem releaseWaiter_frames (s : St)  : (releaseWaiter s).frames = s.frames :=
  congrArg Wire.frames (wire_releaseWaiter s)

theorem wire_feedData (s : St) (m : Msg) : wire (feedData s m) = wire s := by
  unfold feedData
  wire_auto
@[simp] theorem feedData_cfg (s : St) (m : Msg) : (feedData s m).cfg = s.cfg :=
  congrArg Wire.cfg (wire_feedData s m)
@[simp] theorem feedData_closed (s : St) (m : Msg) : (feedData s m).closed = s.closed :=
  congrArg Wire.closed (wire_feedData s m)
@[simp] theorem feedData_wClosing (s : St) (m : Msg) : (feedData s m).wClosing = s.wClosing :=
  congrArg Wire.wClosing (wire_feedData s m)
@[simp] theorem feedData_paused (s : St) (m : Msg) : (feedData s m).paused = s.paused :=
  congrArg Wire.paused (wire_feedData s m)
@[simp] theorem feedData_frames (s : St) (m : Msg) : (feedData s m).frames = s.frames :=
  congrArg Wire.frames (wire_feedData s m)

theorem wire_feedEof (s : St)  : wire (feedEof s) = wire s := by
  unfold feedEof
  wire_auto
@[simp] theorem feedEof_cfg (s : St)  : (feedEof s).cfg = s.cfg :=
  congrArg Wire.cfg (wire_feedEof s)
@[simp] theorem feedEof_closed (s : St)  : (feedEof s).closed = s.closed :=
  congrArg Wire.closed (wire_feedEof s)
@[simp] theorem feedEof_wClosing (s : St)  : (feedEof s).wClosing = s.wClosing :=
  congrArg Wire.wClosing (wire_feedEof s)
@[simp] theorem feedEof_paused (s : St)  : (feedEof s).paused = s.paused :=
  congrArg Wire.paused (wire_feedEof s)
@[simp] theorem feedEof_frames (s : St)  : (feedEof s).frames = s.frames :=
  congrArg Wire.frames (wire_feedEof s)

theorem wire_queueSetException (s : St) (c : Nat) : wire (queueSetException s c) = wire s := by
  unfold queueSetException
  wire_auto
@[simp] theorem queueSetException_cfg (s : St) (c : Nat) : (queueSetException s c).cfg = s.cfg :=
  congrArg Wire.cfg (wire_queueSetException s c)
@[simp] theorem queueSetException_closed (s : St) (c : Nat) : (queueSetException s c).closed = s.closed :=
  congrArg Wire.closed (wire_queueSetException s c)
@[simp] theorem queueSetException_wClosing (s : St) (c : Nat) : (queueSetException s c).wClosing = s.wClosing :=
  congrArg Wire.wClosing (wire_queueSetException s c)
@[simp] theorem queueSetException_paused (s : St) (c : Nat) : (queueSetException s c).paused = s.paused :=
  congrArg Wire.paused (wire_queueSetException s c)
@[simp] theorem queueSetException_frames (s : St) (c : Nat) : (queueSetException s c).frames = s.frames :=
  congrArg Wire.frames (wire_queueSetException s c)

theorem wire_readFromBuffer (s : St)  : wire ((readFromBuffer s).1) = wire s := by
  unfold readFromBuffer
  wire_auto
@[simp] theorem readFromBuffer_cfg (s : St)  : ((readFromBuffer s).1).cfg = s.cfg :=
  congrArg Wire.cfg (wire_readFromBuffer s)
@[simp] theorem readFromBuffer_closed (s : St)  : ((readFromBuffer s).1).closed = s.closed :=
  congrArg Wire.closed (wire_readFromBuffer s)
@[simp] theorem readFromBuffer_wClosing (s : St)  : ((readFromBuffer s).1).wClosing = s.wClosing :=
  congrArg Wire.wClosing (wire_readFromBuffer s)
@[simp] theorem readFromBuffer_paused (s : St)  : ((readFromBuffer s).1).paused = s.paused :=
  congrArg Wire.paused (wire_readFromBuffer s)
@[simp] theorem readFromBuffer_frames (s : St)  : ((readFromBuffer s).1).frames = s.frames :=
  congrArg Wire.frames (wire_readFromBuffer s)

theorem wire_cancelTask (s : St) (t : Tid) : wire (cancelTask s t) = wire s := by
  unfold cancelTask
  wire_auto
@[simp] theorem cancelTask_cfg (s : St) (t : Tid) : (cancelTask s t).cfg = s.cfg :=
  congrArg Wire.cfg (wire_cancelTask s t)
@[simp] theorem cancelTask_closed (s : St) (t : Tid) : (cancelTask s t).closed = s.closed :=
  congrArg Wire.closed (wire_cancelTask s t)
@[simp] theorem cancelTask_wClosing (s : St) (t : Tid) : (cancelTask s t).wClosing = s.wClosing :=
  congrArg Wire.wClosing (wire_cancelTask s t)
@[simp] theorem cancelTask_paused (s : St) (t : Tid) : (cancelTask s t).paused = s.paused :=
  congrArg Wire.paused (wire_cancelTask s t)
@[simp] theorem cancelTask_frames (s : St) (t : Tid) : (cancelTask s t).frames = s.frames :=
  congrArg Wire.frames (wire_cancelTask s t)

theorem wire_cancelPong (s : St)  : wire (cancelPong s) = wire s := by
  unfold cancelPong
  wire_auto
@[simp] theorem cancelPong_cfg (s : St)  : (cancelPong s).cfg = s.cfg :=
  congrArg Wire.cfg (wire_cancelPong s)
@[simp] theorem cancelPong_closed (s : St)  : (cancelPong s).closed = s.closed :=
  congrArg Wire.closed (wire_cancelPong s)
@[simp] theorem cancelPong_wClosing (s : St)  : (cancelPong s).wClosing = s.wClosing :=
  congrArg Wire.wClosing (wire_cancelPong s)
@[simp] theorem cancelPong_paused (s : St)  : (cancelPong s).paused = s.paused :=
  congrArg Wire.paused (wire_cancelPong s)
@[simp] theorem cancelPong_frames (s : St)  : (cancelPong s).frames = s.frames :=
  congrArg Wire.frames (wire_cancelPong s)

theorem wire_cancelHeartbeat (s : St)  : wire (cancelHeartbeat s) = wire s := by
  unfold cancelHeartbeat
  wire_auto
@[simp] theorem cancelHeartbeat_cfg (s : St)  : (cancelHeartbeat s).cfg = s.cfg :=
  congrArg Wire.cfg (wire_cancelHeartbeat s)
@[simp] theorem cancelHeartbeat_closed (s : St)  : (cancelHeartbeat s).closed = s.closed :=
  congrArg Wire.closed (wire_cancelHeartbeat s)
@[simp] theorem cancelHeartbeat_wClosing (s : St)  : (cancelHeartbeat s).wClosing = s.wClosing :=
  congrArg Wire.wClosing (wire_cancelHeartbeat s)
@[simp] theorem cancelHeartbeat_paused (s : St)  : (cancelHeartbeat s).paused = s.paused :=
  congrArg Wire.paused (wire_cancelHeartbeat s)
@[simp] theorem cancelHeartbeat_frames (s : St)  : (cancelHeartbeat s).frames = s.frames :=
  congrArg Wire.frames (wire_cancelHeartbeat s)

theorem wire_srvSetClosing (s : St) (c : Nat) : wire (srvSetClosing s c) = wire s := by
  unfold srvSetClosing
  wire_auto
@[simp] theorem srvSetClosing_cfg (s : St) (c : Nat) : (srvSetClosing s c).cfg = s.cfg :=
  congrArg Wire.cfg (wire_srvSetClosing s c)
@[simp] theorem srvSetClosing_closed (s : St) (c : Nat) : (srvSetClosing s c).closed = s.closed :=
  congrArg Wire.closed (wire_srvSetClosing s c)
@[simp] theorem srvSetClosing_wClosing (s : St) (c : Nat) : (srvSetClosing s c).wClosing = s.wClosing :=
  congrArg Wire.wClosing (wire_srvSetClosing s c)
@[simp] theorem srvSetClosing_paused (s : St) (c : Nat) : (srvSetClosing s c).paused = s.paused :=
  congrArg Wire.paused (wire_srvSetClosing s c)
@[simp] theorem srvSetClosing_frames (s : St) (c : Nat) : (srvSetClosing s c).frames = s.frames :=
  congrArg Wire.frames (wire_srvSetClosing s c)

theorem wire_cliSetClosing (s : St)  : wire (cliSetClosing s) = wire s := by
  unfold cliSetClosing
  wire_auto
@[simp] theorem cliSetClosing_cfg (s : St)  : (cliSetClosing s).cfg = s.cfg :=
  congrArg Wire.cfg (wire_cliSetClosing s)
@[simp] theorem cliSetClosing_closed (s : St)  : (cliSetClosing s).closed = s.closed :=
  congrArg Wire.closed (wire_cliSetClosing s)
@[simp] theorem cliSetClosing_wClosing (s : St)  : (cliSetClosing s).wClosing = s.wClosing :=
  congrArg Wire.wClosing (wire_cliSetClosing s)
@[simp] theorem cliSetClosing_paused (s : St)  : (cliSetClosing s).paused = s.paused :=
  congrArg Wire.paused (wire_cliSetClosing s)
@[simp] theorem cliSetClosing_frames (s : St)  : (cliSetClosing s).frames = s.frames :=
  congrArg Wire.frames (wire_cliSetClosing s)

theorem wire_resetHeartbeat (s : St)  : wire (resetHeartbeat s) = wire s := by
  unfold resetHeartbeat
  wire_auto
@[simp] theorem resetHeartbeat_cfg (s : St)  : (resetHeartbeat s).cfg = s.cfg :=
  congrArg Wire.cfg (wire_resetHeartbeat s)
@[simp] theorem resetHeartbeat_closed (s : St)  : (resetHeartbeat s).closed = s.closed :=
  congrArg Wire.closed (wire_resetHeartbeat s)
@[simp] theorem resetHeartbeat_wClosing (s : St)  : (resetHeartbeat s).wClosing = s.wClosing :=
  congrArg Wire.wClosing (wire_resetHeartbeat s)
@[simp] theorem resetHeartbeat_paused (s : St)  : (resetHeartbeat s).paused = s.paused :=
  congrArg Wire.paused (wire_resetHeartbeat s)
@[simp] theorem resetHeartbeat_frames (s : St)  : (resetHeartbeat s).frames = s.frames :=
  congrArg Wire.frames (wire_resetHeartbeat s)

theorem wire_onDataReceived (s : St)  : wire (onDataReceived s) = wire s := by
  unfold onDataReceived
  wire_auto
@[simp] theorem onDataReceived_cfg (s : St)  : (onDataReceived s).cfg = s.cfg :=
  congrArg Wire.cfg (wire_onDataReceived s)
@[simp] theorem onDataReceived_closed (s : St)  : (onDataReceived s).closed = s.closed :=
  congrArg Wire.closed (wire_onDataReceived s)
@[simp] theorem onDataReceived_wClosing (s : St)  : (onDataReceived s).wClosing = s.wClosing :=
  congrArg Wire.wClosing (wire_onDataReceived s)
@[simp] theorem onDataReceived_paused (s : St)  : (onDataReceived s).paused = s.paused :=
  congrArg Wire.paused (wire_onDataReceived s)
@[simp] theorem onDataReceived_frames (s : St)  : (onDataReceived s).frames = s.frames :=
  congrArg Wire.frames (wire_onDataReceived s)

theorem wire_drainHelper (s : St)  : wire ((drainHelper s).1) = wire s := by
  unfold drainHelper
  wire_auto
@[simp] theorem drainHelper_cfg (s : St)  : ((drainHelper s).1).cfg = s.cfg :=
  congrArg Wire.cfg (wire_drainHelper s)
@[simp] theorem drainHelper_closed (s : St)  : ((drainHelper s).1).closed = s.closed :=
  congrArg Wire.closed (wire_drainHelper s)
@[simp] theorem drainHelper_wClosing (s : St)  : ((drainHelper s).1).wClosing = s.wClosing :=
  congrArg Wire.wClosing (wire_drainHelper s)
@[simp] theorem drainHelper_paused (s : St)  : ((drainHelper s).1).paused = s.paused :=
  congrArg Wire.paused (wire_drainHelper s)
@[simp] theorem drainHelper_frames (s : St)  : ((drainHelper s).1).frames = s.frames :=
  congrArg Wire.frames (wire_drainHelper s)

theorem wire_park (s : St) (t : Tid) (pc : Pc) : wire (park s t pc) = wire s := by
  unfold park
  wire_auto
@[simp] theorem park_cfg (s : St) (t : Tid) (pc : Pc) : (park s t pc).cfg = s.cfg :=
  congrArg Wire.cfg (wire_park s t pc)
@[simp] theorem park_closed (s : St) (t : Tid) (pc : Pc) : (park s t pc).closed = s.closed :=
  congrArg Wire.closed (wire_park s t pc)
@[simp] theorem park_wClosing (s : St) (t : Tid) (pc : Pc) : (park s t pc).wClosing = s.wClosing :=
  congrArg Wire.wClosing (wire_park s t pc)
@[simp] theorem park_paused (s : St) (t : Tid) (pc : Pc) : (park s t pc).paused = s.paused :=
  congrArg Wire.paused (wire_park s t pc)
@[simp] theorem park_frames (s : St) (t : Tid) (pc : Pc) : (park s t pc).frames = s.frames :=
  congrArg Wire.frames (wire_park s t pc)

theorem wire_finish (s : St) (t : Tid) (o : Outcome) : wire (finish s t o) = wire s := by
  unfold finish
  wire_auto
@[simp] theorem finish_cfg (s : St) (t : Tid) (o : Outcome) : (finish s t o).cfg = s.cfg :=
  congrArg Wire.cfg (wire_finish s t o)
@[simp] theorem finish_closed (s : St) (t : Tid) (o : Outcome) : (finish s t o).closed = s.closed :=
  congrArg Wire.closed (wire_finish s t o)
@[simp] theorem finish_wClosing (s : St) (t : Tid) (o : Outcome) : (finish s t o).wClosing = s.wClosing :=
  congrArg Wire.wClosing (wire_finish s t o)
@[simp] theorem finish_paused (s : St) (t : Tid) (o : Outcome) : (finish s t o).paused = s.paused :=
  congrArg Wire.paused (wire_finish s t o)
@[simp] theorem finish_frames (s : St) (t : Tid) (o : Outcome) : (finish s t o).frames = s.frames :=
  congrArg Wire.frames (wire_finish s t o)

theorem wire_exitTmo (s : St) (t : Tid) (e : Option Exc) : wire ((exitTmo s t e).1) = wire s := by
  unfold exitTmo
  wire_auto
@[simp] theorem exitTmo_cfg (s : St) (t : Tid) (e : Option Exc) : ((exitTmo s t e).1).cfg = s.cfg :=
  congrArg Wire.cfg (wire_exitTmo s t e)
@[simp] theorem exitTmo_closed (s : St) (t : Tid) (e : Option Exc) : ((exitTmo s t e).1).closed = s.closed :=
  congrArg Wire.closed (wire_exitTmo s t e)
@[simp] theorem exitTmo_wClosing (s : St) (t : Tid) (e : Option Exc) : ((exitTmo s t e).1).wClosing = s.wClosing :=
  congrArg Wire.wClosing (wire_exitTmo s t e)
@[simp] theorem exitTmo_paused (s : St) (t : Tid) (e : Option Exc) : ((exitTmo s t e).1).paused = s.paused :=
  congrArg Wire.paused (wire_exitTmo s t e)
@[simp] theorem exitTmo_frames (s : St) (t : Tid) (e : Option Exc) : ((exitTmo s t e).1).frames = s.frames :=
  congrArg Wire.frames (wire_exitTmo s t e)

theorem wire_armTmo (s : St) (t : Tid) (d : Nat) : wire (armTmo s t d) = wire s := by
  unfold armTmo
  wire_auto
@[simp] theorem armTmo_cfg (s : St) (t : Tid) (d : Nat) : (armTmo s t d).cfg = s.cfg :=
  congrArg Wire.cfg (wire_armTmo s t d)
@[simp] theorem armTmo_closed (s : St) (t : Tid) (d : Nat) : (armTmo s t d).closed = s.closed :=
  congrArg Wire.closed (wire_armTmo s t d)
@[simp] theorem armTmo_wClosing (s : St) (t : Tid) (d : Nat) : (armTmo s t d).wClosing = s.wClosing :=
  congrArg Wire.wClosing (wire_armTmo s t d)
@[simp] theorem armTmo_paused (s : St) (t : Tid) (d : Nat) : (armTmo s t d).paused = s.paused :=
  congrArg Wire.paused (wire_armTmo s t d)
@[simp] theorem armTmo_frames (s : St) (t : Tid) (d : Nat) : (armTmo s t d).frames = s.frames :=
  congrArg Wire.frames (wire_armTmo s t d)

theorem wire_closeReturn (s : St) (t : Tid) (r : Except Exc Bool) : wire (closeReturn s t r) = wire s := by
  unfold closeReturn
  wire_auto
@[simp] theorem closeReturn_cfg (s : St) (t : Tid) (r : Except Exc Bool) : (closeReturn s t r).cfg = s.cfg :=
  congrArg Wire.cfg (wire_closeReturn s t r)
@[simp] theorem closeReturn_closed (s : St) (t : Tid) (r : Except Exc Bool) : (closeReturn s t r).closed = s.closed :=
  congrArg Wire.closed (wire_closeReturn s t r)
@[simp] theorem closeReturn_wClosing (s : St) (t : Tid) (r : Except Exc Bool) : (closeReturn s t r).wClosing = s.wClosing :=
  congrArg Wire.wClosing (wire_closeReturn s t r)
@[simp] theorem closeReturn_paused (s : St) (t : Tid) (r : Except Exc Bool) : (closeReturn s t r).paused = s.paused :=
  congrArg Wire.paused (wire_closeReturn s t r)
@[simp] theorem closeReturn_frames (s : St) (t : Tid) (r : Except Exc Bool) : (closeReturn s t r).frames = s.frames :=
  congrArg Wire.frames (wire_closeReturn s t r)

theorem wire_recvFinally (s : St)  : wire (recvFinally s) = wire s := by
  unfold recvFinally
  wire_auto
@[simp] theorem recvFinally_cfg (s : St)  : (recvFinally s).cfg = s.cfg :=
  congrArg Wire.cfg (wire_recvFinally s)
@[simp] theorem recvFinally_closed (s : St)  : (recvFinally s).closed = s.closed :=
  congrArg Wire.closed (wire_recvFinally s)
@[simp] theorem recvFinally_wClosing (s : St)  : (recvFinally s).wClosing = s.wClosing :=
  congrArg Wire.wClosing (wire_recvFinally s)
@[simp] theorem recvFinally_paused (s : St)  : (recvFinally s).paused = s.paused :=
  congrArg Wire.paused (wire_recvFinally s)
@[simp] theorem recvFinally_frames (s : St)  : (recvFinally s).frames = s.frames :=
  congrArg Wire.frames (wire_recvFinally s)

theorem wire_baseConnLost (s : St) (e : Bool) : wire (baseConnLost s e) = wire s := by
  unfold baseConnLost
  wire_auto
@[simp] theorem baseConnLost_cfg (s : St) (e : Bool) : (baseConnLost s e).cfg = s.cfg :=
  congrArg Wire.cfg (wire_baseConnLost s e)
@[simp] theorem baseConnLost_closed (s : St) (e : Bool) : (baseConnLost s e).closed = s.closed :=
  congrArg Wire.closed (wire_baseConnLost s e)
@[simp] theorem baseConnLost_wClosing (s : St) (e : Bool) : (baseConnLost s e).wClosing = s.wClosing :=
  congrArg Wire.wClosing (wire_baseConnLost s e)
@[simp] theorem baseConnLost_paused (s : St) (e : Bool) : (baseConnLost s e).paused = s.paused :=
  congrArg Wire.paused (wire_baseConnLost s e)
@[simp] theorem baseConnLost_frames (s : St) (e : Bool) : (baseConnLost s e).frames = s.frames :=
  congrArg Wire.frames (wire_baseConnLost s e)

theorem wire_connLost (s : St) (e : Bool) : wire (connLost s e) = wire s := by
  unfold connLost
  wire_auto
@[simp] theorem connLost_cfg (s : St) (e : Bool) : (connLost s e).cfg = s.cfg :=
  congrArg Wire.cfg (wire_connLost s e)
@[simp] theorem connLost_closed (s : St) (e : Bool) : (connLost s e).closed = s.closed :=
  congrArg Wire.closed (wire_connLost s e)
@[simp] theorem connLost_wClosing (s : St) (e : Bool) : (connLost s e).wClosing = s.wClosing :=
  congrArg Wire.wClosing (wire_connLost s e)
@[simp] theorem connLost_paused (s : St) (e : Bool) : (connLost s e).paused = s.paused :=
  congrArg Wire.paused (wire_connLost s e)
@[simp] theorem connLost_frames (s : St) (e : Bool) : (connLost s e).frames = s.frames :=
  congrArg Wire.frames (wire_connLost s e)

theorem wire_fireDue (s : St)  : wire (fireDue s) = wire s := by
  unfold fireDue
  wire_auto
@[simp] theorem fireDue_cfg (s : St)  : (fireDue s).cfg = s.cfg :=
  congrArg Wire.cfg (wire_fireDue s)
@[simp] theorem fireDue_closed (s : St)  : (fireDue s).closed = s.closed :=
  congrArg Wire.closed (wire_fireDue s)
@[simp] theorem fireDue_wClosing (s : St)  : (fireDue s).wClosing = s.wClosing :=
  congrArg Wire.wClosing (wire_fireDue s)
@[simp] theorem fireDue_paused (s : St)  : (fireDue s).paused = s.paused :=
  congrArg Wire.paused (wire_fireDue s)
@[simp] theorem fireDue_frames (s : St)  : (fireDue s).frames = s.frames :=
  congrArg Wire.frames (wire_fireDue s)

theorem wire_peerFrame (s : St) (f : PeerFrame) : wire (peerFrame s f) = wire s := by
  unfold peerFrame
  wire_auto
@[simp] theorem peerFrame_cfg (s : St) (f : PeerFrame) : (peerFrame s f).cfg = s.cfg :=
  congrArg Wire.cfg (wire_peerFrame s f)
@[simp] theorem peerFrame_closed (s : St) (f : PeerFrame) : (peerFrame s f).closed = s.closed :=
  congrArg Wire.closed (wire_peerFrame s f)
@[simp] theorem peerFrame_wClosing (s : St) (f : PeerFrame) : (peerFrame s f).wClosing = s.wClosing :=
  congrArg Wire.wClosing (wire_peerFrame s f)
@[simp] theorem peerFrame_paused (s : St) (f : PeerFrame) : (peerFrame s f).paused = s.paused :=
  congrArg Wire.paused (wire_peerFrame s f)
@[simp] theorem peerFrame_frames (s : St) (f : PeerFrame) : (peerFrame s f).frames = s.frames :=
  congrArg Wire.frames (wire_peerFrame s f)

theorem wire_srvCloseExc1 (s : St) (t : Tid) (e : Exc) : wire (srvCloseExc1 s t e) = wire s := by
  unfold srvCloseExc1
  wire_auto
@[simp] theorem srvCloseExc1_cfg (s : St) (t : Tid) (e : Exc) : (srvCloseExc1 s t e).cfg = s.cfg :=
  congrArg Wire.cfg (wire_srvCloseExc1 s t e)
@[simp] theorem srvCloseExc1_closed (s : St) (t : Tid) (e : Exc) : (srvCloseExc1 s t e).closed = s.closed :=
  congrArg Wire.closed (wire_srvCloseExc1 s t e)
@[simp] theorem srvCloseExc1_wClosing (s : St) (t : Tid) (e : Exc) : (srvCloseExc1 s t e).wClosing = s.wClosing :=
  congrArg Wire.wClosing (wire_srvCloseExc1 s t e)
@[simp] theorem srvCloseExc1_paused (s : St) (t : Tid) (e : Exc) : (srvCloseExc1 s t e).paused = s.paused :=
  congrArg Wire.paused (wire_srvCloseExc1 s t e)
@[simp] theorem srvCloseExc1_frames (s : St) (t : Tid) (e : Exc) : (srvCloseExc1 s t e).frames = s.frames :=
  congrArg Wire.frames (wire_srvCloseExc1 s t e)

theorem wire_srvCloseExc2 (s : St) (t : Tid) (e : Exc) : wire (srvCloseExc2 s t e) = wire s := by
  unfold srvCloseExc2
  wire_auto
@[simp] theorem srvCloseExc2_cfg (s : St) (t : Tid) (e : Exc) : (srvCloseExc2 s t e).cfg = s.cfg :=
  congrArg Wire.cfg (wire_srvCloseExc2 s t e)
@[simp] theorem srvCloseExc2_closed (s : St) (t : Tid) (e : Exc) : (srvCloseExc2 s t e).closed = s.closed :=
  congrArg Wire.closed (wire_srvCloseExc2 s t e)
@[simp] theorem srvCloseExc2_wClosing (s : St) (t : Tid) (e : Exc) : (srvCloseExc2 s t e).wClosing = s.wClosing :=
  congrArg Wire.wClosing (wire_srvCloseExc2 s t e)
@[simp] theorem srvCloseExc2_paused (s : St) (t : Tid) (e : Exc) : (srvCloseExc2 s t e).paused = s.paused :=
  congrArg Wire.paused (wire_srvCloseExc2 s t e)
@[simp] theorem srvCloseExc2_frames (s : St) (t : Tid) (e : Exc) : (srvCloseExc2 s t e).frames = s.frames :=
  congrArg Wire.frames (wire_srvCloseExc2 s t e)

theorem wire_srvCloseRead (s : St) (t : Tid) : wire (srvCloseRead s t) = wire s := by
  unfold srvCloseRead
  wire_auto
@[simp] theorem srvCloseRead_cfg (s : St) (t : Tid) : (srvCloseRead s t).cfg = s.cfg :=
  congrArg Wire.cfg (wire_srvCloseRead s t)
@[simp] theorem srvCloseRead_closed (s : St) (t : Tid) : (srvCloseRead s t).closed = s.closed :=
  congrArg Wire.closed (wire_srvCloseRead s t)
@[simp] theorem srvCloseRead_wClosing (s : St) (t : Tid) : (srvCloseRead s t).wClosing = s.wClosing :=
  congrArg Wire.wClosing (wire_srvCloseRead s t)
@[simp] theorem srvCloseRead_paused (s : St) (t : Tid) : (srvCloseRead s t).paused = s.paused :=
  congrArg Wire.paused (wire_srvCloseRead s t)
@[simp] theorem srvCloseRead_frames (s : St) (t : Tid) : (srvCloseRead s t).frames = s.frames :=
  congrArg Wire.frames (wire_srvCloseRead s t)

theorem wire_srvCloseAfterWait (s : St) (t : Tid) : wire (srvCloseAfterWait s t) = wire s := by
  unfold srvCloseAfterWait
  wire_auto
@[simp] theorem srvCloseAfterWait_cfg (s : St) (t : Tid) : (srvCloseAfterWait s t).cfg = s.cfg :=
  congrArg Wire.cfg (wire_srvCloseAfterWait s t)
@[simp] theorem srvCloseAfterWait_closed (s : St) (t : Tid) : (srvCloseAfterWait s t).closed = s.closed :=
  congrArg Wire.closed (wire_srvCloseAfterWait s t)
@[simp] theorem srvCloseAfterWait_wClosing (s : St) (t : Tid) : (srvCloseAfterWait s t).wClosing = s.wClosing :=
  congrArg Wire.wClosing (wire_srvCloseAfterWait s t)
@[simp] theorem srvCloseAfterWait_paused (s : St) (t : Tid) : (srvCloseAfterWait s t).paused = s.paused :=
  congrArg Wire.paused (wire_srvCloseAfterWait s t)
@[simp] theorem srvCloseAfterWait_frames (s : St) (t : Tid) : (srvCloseAfterWait s t).frames = s.frames :=
  congrArg Wire.frames (wire_srvCloseAfterWait s t)

theorem wire_srvCloseAfterDrain (s : St) (t : Tid) : wire (srvCloseAfterDrain s t) = wire s := by
  unfold srvCloseAfterDrain
  wire_auto
@[simp] theorem srvCloseAfterDrain_cfg (s : St) (t : Tid) : (srvCloseAfterDrain s t).cfg = s.cfg :=
  congrArg Wire.cfg (wire_srvCloseAfterDrain s t)
@[simp] theorem srvCloseAfterDrain_closed (s : St) (t : Tid) : (srvCloseAfterDrain s t).closed = s.closed :=
  congrArg Wire.closed (wire_srvCloseAfterDrain s t)
@[simp] theorem srvCloseAfterDrain_wClosing (s : St) (t : Tid) : (srvCloseAfterDrain s t).wClosing = s.wClosing :=
  congrArg Wire.wClosing (wire_srvCloseAfterDrain s t)
@[simp] theorem srvCloseAfterDrain_paused (s : St) (t : Tid) : (srvCloseAfterDrain s t).paused = s.paused :=
  congrArg Wire.paused (wire_srvCloseAfterDrain s t)
@[simp] theorem srvCloseAfterDrain_frames (s : St) (t : Tid) : (srvCloseAfterDrain s t).frames = s.frames :=
  congrArg Wire.frames (wire_srvCloseAfterDrain s t)

theorem wire_srvCloseAfterFrame (s : St) (t : Tid) : wire (srvCloseAfterFrame s t) = wire s := by
  unfold srvCloseAfterFrame
  wire_auto
@[simp] theorem srvCloseAfterFrame_cfg (s : St) (t : Tid) : (srvCloseAfterFrame s t).cfg = s.cfg :=
  congrArg Wire.cfg (wire_srvCloseAfterFrame s t)
@[simp] theorem srvCloseAfterFrame_closed (s : St) (t : Tid) : (srvCloseAfterFrame s t).closed = s.closed :=
  congrArg Wire.closed (wire_srvCloseAfterFrame s t)
@[simp] theorem srvCloseAfterFrame_wClosing (s : St) (t : Tid) : (srvCloseAfterFrame s t).wClosing = s.wClosing :=
  congrArg Wire.wClosing (wire_srvCloseAfterFrame s t)
@[simp] theorem srvCloseAfterFrame_paused (s : St) (t : Tid) : (srvCloseAfterFrame s t).paused = s.paused :=
  congrArg Wire.paused (wire_srvCloseAfterFrame s t)
@[simp] theorem srvCloseAfterFrame_frames (s : St) (t : Tid) : (srvCloseAfterFrame s t).frames = s.frames :=
  congrArg Wire.frames (wire_srvCloseAfterFrame s t)

theorem wire_cliCloseExc (s : St) (t : Tid) (e : Exc) : wire (cliCloseExc s t e) = wire s := by
  unfold cliCloseExc
  wire_auto
@[simp] theorem cliCloseExc_cfg (s : St) (t : Tid) (e : Exc) : (cliCloseExc s t e).cfg = s.cfg :=
  congrArg Wire.cfg (wire_cliCloseExc s t e)
@[simp] theorem cliCloseExc_closed (s : St) (t : Tid) (e : Exc) : (cliCloseExc s t e).closed = s.closed :=
  congrArg Wire.closed (wire_cliCloseExc s t e)
@[simp] theorem cliCloseExc_wClosing (s : St) (t : Tid) (e : Exc) : (cliCloseExc s t e).wClosing = s.wClosing :=
  congrArg Wire.wClosing (wire_cliCloseExc s t e)
@[simp] theorem cliCloseExc_paused (s : St) (t : Tid) (e : Exc) : (cliCloseExc s t e).paused = s.paused :=
  congrArg Wire.paused (wire_cliCloseExc s t e)
@[simp] theorem cliCloseExc_frames (s : St) (t : Tid) (e : Exc) : (cliCloseExc s t e).frames = s.frames :=
  congrArg Wire.frames (wire_cliCloseExc s t e)

theorem wire_cliCloseRead (s : St) (t : Tid) : wire (cliCloseRead s t) = wire s := by
  unfold cliCloseRead
  wire_auto
@[simp] theorem cliCloseRead_cfg (s : St) (t : Tid) : (cliCloseRead s t).cfg = s.cfg :=
  congrArg Wire.cfg (wire_cliCloseRead s t)
@[simp] theorem cliCloseRead_closed (s : St) (t : Tid) : (cliCloseRead s t).closed = s.closed :=
  congrArg Wire.closed (wire_cliCloseRead s t)
@[simp] theorem cliCloseRead_wClosing (s : St) (t : Tid) : (cliCloseRead s t).wClosing = s.wClosing :=
  congrArg Wire.wClosing (wire_cliCloseRead s t)
@[simp] theorem cliCloseRead_paused (s : St) (t : Tid) : (cliCloseRead s t).paused = s.paused :=
  congrArg Wire.paused (wire_cliCloseRead s t)
@[simp] theorem cliCloseRead_frames (s : St) (t : Tid) : (cliCloseRead s t).frames = s.frames :=
  congrArg Wire.frames (wire_cliCloseRead s t)

theorem wire_cliCloseAfterFrame (s : St) (t : Tid) : wire (cliCloseAfterFrame s t) = wire s := by
  unfold cliCloseAfterFrame
  wire_auto
@[simp] theorem cliCloseAfterFrame_cfg (s : St) (t : Tid) : (cliCloseAfterFrame s t).cfg = s.cfg :=
  congrArg Wire.cfg (wire_cliCloseAfterFrame s t)
@[simp] theorem cliCloseAfterFrame_closed (s : St) (t : Tid) : (cliCloseAfterFrame s t).closed = s.closed :=
  congrArg Wire.closed (wire_cliCloseAfterFrame s t)
@[simp] theorem cliCloseAfterFrame_wClosing (s : St) (t : Tid) : (cliCloseAfterFrame s t).wClosing = s.wClosing :=
  congrArg Wire.wClosing (wire_cliCloseAfterFrame s t)
@[simp] theorem cliCloseAfterFrame_paused (s : St) (t : Tid) : (cliCloseAfterFrame s t).paused = s.paused :=
  congrArg Wire.paused (wire_cliCloseAfterFrame s t)
@[simp] theorem cliCloseAfterFrame_frames (s : St) (t : Tid) : (cliCloseAfterFrame s t).frames = s.frames :=
  congrArg Wire.frames (wire_cliCloseAfterFrame s t)

theorem wire_flowControl (s : St)  : wire (flowControl s).1 = wire s := by
  unfold flowControl
  wire_auto
@[simp] theorem flowControl_cfg (s : St)  : (flowControl s).1.cfg = s.cfg :=
  congrArg Wire.cfg (wire_flowControl s)
@[simp] theorem flowControl_closed (s : St)  : (flowControl s).1.closed = s.closed :=
  congrArg Wire.closed (wire_flowControl s)
@[simp] theorem flowControl_wClosing (s : St)  : (flowControl s).1.wClosing = s.wClosing :=
  congrArg Wire.wClosing (wire_flowControl s)
@[simp] theorem flowControl_paused (s : St)  : (flowControl s).1.paused = s.paused :=
  congrArg Wire.paused (wire_flowControl s)
@[simp] theorem flowControl_frames (s : St)  : (flowControl s).1.frames = s.frames :=
  congrArg Wire.frames (wire_flowControl s)

/-! ## the wire invariant -/

def closeCount (fs : List Frame) : Nat := (fs.filter Frame.isClose).length
def hasClose (fs : List Frame) : Bool := fs.any Frame.isClose
/-- some data frame occurs after some CLOSE frame -/
def dataAfterClose : List Frame → Bool
  | [] => false
  | f :: rest => (f.isClose && rest.any Frame.isData) || dataAfterClose rest

theorem closeCount_append (fs : List Frame) (f : Frame) :
    closeCount (fs ++ [f]) = closeCount fs + (if f.isClose then 1 else 0) := by
  unfold closeCount
  rw [List.filter_append]
  by_cases h : f.isClose <;> simp [h]

theorem hasClose_append (fs : List Frame) (f : Frame) :
    hasClose (fs ++ [f]) = (hasClose fs || f.isClose) := by
  simp [hasClose]

theorem dataAfterClose_append (fs : List Frame) (f : Frame) :
    dataAfterClose (fs ++ [f]) = (dataAfterClose fs || (hasClose fs && f.isData)) := by
  induction fs with
  | nil => simp [dataAfterClose, hasClose]
  | cons g rest ih =>
    simp only [List.cons_append, dataAfterClose, ih, hasClose, List.any_cons, List.any_append, List.any_nil,
      Bool.or_false]
    cases g.isClose <;> cases (rest.any Frame.isData) <;> cases (dataAfterClose rest) <;>
      cases (rest.any Frame.isClose) <;> cases f.isData <;> rfl

theorem closeCount_zero_of_not_hasClose (fs : List Frame) (h : hasClose fs = false) : closeCount fs = 0 := by
  induction fs with
  | nil => rfl
  | cons f rest ih =>
    simp only [hasClose, List.any_cons, Bool.or_eq_false_iff] at h
    have := ih (by simpa [hasClose] using h.2)
    simp [closeCount, h.1] at this ⊢
    exact this

/-- "no back-pressure can separate the CLOSE frame from `_closing`": the repaired writer, or a
transport that is not write-paused.  `g` switches the two strong clauses off altogether (`g = False`). -/
def SafeW (g : Prop) (w : Wire) : Prop := g ∧ (w.cfg.fixed = true ∨ w.paused = false)

/-- the wire invariant; parameters: `g` (prove the strong clauses at all), `np` (the run contains no
`pauseW` label, so `paused` stays false), `c0` (the configuration, which never changes) -/
structure InvW (g np : Prop) (c0 : Cfg) (w : Wire) : Prop where
  cfgEq : w.cfg = c0
  npPaused : np → w.paused = false
  closed_of_close : hasClose w.frames = true → w.closed = true
  count : closeCount w.frames ≤ 1
  wclosing : SafeW g w → hasClose w.frames = true → w.wClosing = true
  nodata : SafeW g w → dataAfterClose w.frames = false

def Inv (g np : Prop) (c0 : Cfg) (s : St) : Prop := InvW g np c0 (wire s)

variable {g np : Prop} {c0 : Cfg}

theorem Inv_congr {s s' : St} (h : wire s' = wire s) (hi : Inv g np c0 s) : Inv g np c0 s' := by
  unfold Inv; rw [h]; exact hi

theorem Inv_setClosed {s : St} (hi : Inv g np c0 s) : Inv g np c0 (setClosed s) := by
  have hw : wire (setClosed s) = { wire s with closed := true } := by
    unfold setClosed; simp [wire]
  unfold Inv; rw [hw]
  exact ⟨hi.cfgEq, hi.npPaused, fun _ => rfl, hi.count, hi.wclosing, hi.nodata⟩

theorem Inv_setWClosing {s : St} (hi : Inv g np c0 s) : Inv g np c0 { s with wClosing := true } :=
  ⟨hi.cfgEq, hi.npPaused, hi.closed_of_close, hi.count, fun _ _ => rfl, hi.nodata⟩

def Safe (g : Prop) (s : St) : Prop := g ∧ (s.cfg.fixed = true ∨ s.paused = false)

theorem Inv.mk' {s : St} (h0 : s.cfg = c0) (h0' : np → s.paused = false)
    (h1 : hasClose s.frames = true → s.closed = true) (h2 : closeCount s.frames ≤ 1)
    (h3 : Safe g s → hasClose s.frames = true → s.wClosing = true)
    (h4 : Safe g s → dataAfterClose s.frames = false) : Inv g np c0 s := ⟨h0, h0', h1, h2, h3, h4⟩
theorem Inv.ccfg {s : St} (hi : Inv g np c0 s) : s.cfg = c0 := hi.cfgEq
theorem Inv.cnp {s : St} (hi : Inv g np c0 s) : np → s.paused = false := hi.npPaused
theorem Inv.c1 {s : St} (hi : Inv g np c0 s) : hasClose s.frames = true → s.closed = true := hi.closed_of_close
theorem Inv.c2 {s : St} (hi : Inv g np c0 s) : closeCount s.frames ≤ 1 := hi.count
theorem Inv.c3 {s : St} (hi : Inv g np c0 s) : Safe g s → hasClose s.frames = true → s.wClosing = true := hi.wclosing
theorem Inv.c4 {s : St} (hi : Inv g np c0 s) : Safe g s → dataAfterClose s.frames = false := hi.nodata

theorem flowControl_park (s : St) (h : (flowControl s).2 = .park) : s.paused = true := by
  unfold flowControl at h
  split at h
  · split at h
    · assumption
    · cases h
  · cases h

/-- writing a frame that is not CLOSE keeps the invariant, provided `send_frame`'s `_closing` test let it through -/
theorem Inv_writeFrame {s : St} (fr : Frame) (n : Nat) (hf : fr.isClose = false)
    (hpass : (s.wClosing && !fr.passesClosing) = false) (hi : Inv g np c0 s) : Inv g np c0 (writeFrame s fr n) := by
  have e1 : (writeFrame s fr n).frames = s.frames ++ [fr] := rfl
  have e2 : (writeFrame s fr n).closed = s.closed := rfl
  have e3 : (writeFrame s fr n).wClosing = s.wClosing := by simp [writeFrame, hf]
  have e4 : Safe g (writeFrame s fr n) ↔ Safe g s := Iff.rfl
  apply Inv.mk'
  · exact hi.ccfg
  · exact hi.cnp
  · rw [e1, e2, hasClose_append, hf, Bool.or_false]; exact hi.c1
  · rw [e1, closeCount_append, hf]; simpa using hi.c2
  · intro hs; rw [e1, e3, hasClose_append, hf, Bool.or_false]; exact hi.c3 (e4.mp hs)
  · intro hs
    have hs' := e4.mp hs
    rw [e1, dataAfterClose_append, hi.c4 hs', Bool.false_or]
    cases hcz : hasClose s.frames with
    | false => rfl
    | true =>
      -- a CLOSE frame is on the wire, hence `_closing` is set, hence a data frame was refused
      have hwc : s.wClosing = true := hi.c3 hs' hcz
      cases fr with
      | data => simp [hwc, Frame.passesClosing, Gen.C13.passClosingText] at hpass
      | ping => rfl
      | pong => rfl
      | close c => simp [Frame.isClose] at hf

theorem Inv_sendFrame {s : St} (fr : Frame) (n : Nat) (hf : fr.isClose = false) (hi : Inv g np c0 s) :
    Inv g np c0 (sendFrame s fr n).1 := by
  unfold sendFrame
  split
  · exact hi
  · next h1 =>
    split
    · exact hi
    · exact Inv_congr (wire_flowControl _) (Inv_writeFrame fr n hf (by simpa using h1) hi)

/-- the CLOSE frame: written at most once (the caller has just set `closed`, no CLOSE is on the wire yet);
afterwards either the caller sets `_closing` in the same atomic section, or `send_frame` parked in the
drain — which needs a write-paused transport — and only the repaired writer has `_closing` set then -/
theorem Inv_sendFrame_close {s : St} (c n : Nat) (hi : Inv g np c0 s) (hcl : s.closed = true)
    (hn : hasClose s.frames = false) :
    Inv g np c0 { (sendFrame s (.close c) n).1 with wClosing := true } ∧
    ((sendFrame s (.close c) n).2 = .park → Inv g np c0 (sendFrame s (.close c) n).1) := by
  have hcount := closeCount_zero_of_not_hasClose _ hn
  unfold sendFrame
  split
  · exact ⟨Inv_setWClosing hi, fun h => by cases h⟩
  · split
    · exact ⟨Inv_setWClosing hi, fun h => by cases h⟩
    · generalize hr : flowControl (writeFrame s (.close c) n) = r
      have e1 : r.1.frames = s.frames ++ [.close c] := by rw [← hr]; simp [writeFrame]
      have e2 : r.1.closed = true := by rw [← hr]; simp [writeFrame, hcl]
      have e3 : r.1.wClosing = (s.wClosing || s.cfg.fixed) := by rw [← hr]; simp [writeFrame, Frame.isClose]
      have e4 : r.1.cfg = s.cfg := by rw [← hr]; simp [writeFrame]
      have e5 : r.1.paused = s.paused := by rw [← hr]; simp [writeFrame]
      have hsafe : ∀ w, Safe g { r.1 with wClosing := w } → Safe g s := by
        intro w h; simpa [Safe, e4, e5] using h
      have hc : closeCount (s.frames ++ [Frame.close c]) ≤ 1 := by
        rw [closeCount_append, hcount]; simp [Frame.isClose]
      have hd : Safe g s → dataAfterClose (s.frames ++ [Frame.close c]) = false := by
        intro hs; rw [dataAfterClose_append, hi.c4 hs]; simp [Frame.isData]
      constructor
      · apply Inv.mk'
        · exact e4.trans hi.ccfg
        · intro h; exact e5.trans (hi.cnp h)
        · intro _; exact e2
        · show closeCount r.1.frames ≤ 1; rw [e1]; exact hc
        · intro _ _; rfl
        · intro hs; show dataAfterClose r.1.frames = false; rw [e1]; exact hd (hsafe _ hs)
      · intro hp
        have hpaused : s.paused = true := by
          have := flowControl_park (writeFrame s (.close c) n) (by rw [hr]; exact hp)
          simpa [writeFrame] using this
        apply Inv.mk'
        · exact e4.trans hi.ccfg
        · intro h; exact e5.trans (hi.cnp h)
        · intro _; exact e2
        · rw [e1]; exact hc
        · intro hs _
          have hs' : Safe g s := by simpa [Safe, e4, e5] using hs
          rcases hs'.2 with h | h
          · rw [e3, h]; simp
          · rw [h] at hpaused; cases hpaused
        · intro hs; rw [e1]; exact hd (by simpa [Safe, e4, e5] using hs)

/-- the state differs from one satisfying `Inv` only outside the wire components -/
macro "inv_same" h:term : tactic => `(tactic| (refine Inv_congr ?_ $h; simp [wire]; done))

theorem wire_resumeCloseRead (s : St) (t : Tid) (rv : Option Exc) : wire (resumeCloseRead s t rv) = wire s := by
  unfold resumeCloseRead
  wire_auto

theorem not_hasClose_of_not_closed {s : St} (hi : Inv g np c0 s) (h : s.closed = false) : hasClose s.frames = false := by
  cases hc : hasClose s.frames with
  | false => rfl
  | true => rw [hi.c1 hc] at h; cases h

theorem Inv_handlePingPongExc {s : St} (e : Exc) (hi : Inv g np c0 s) : Inv g np c0 (handlePingPongExc s e) := by
  unfold handlePingPongExc
  split
  · exact hi
  · have h1 := Inv_setClosed hi
    simp only []
    split <;> split <;> first
      | inv_same h1

theorem Inv_srvCloseEnter {s : St} (t : Tid) (code : Nat) (drain : Bool) (hi : Inv g np c0 s) :
    Inv g np c0 (srvCloseEnter s t code drain) := by
  unfold srvCloseEnter
  split
  · exact Inv_congr (wire_closeReturn _ _ _) hi
  · next hcl =>
    have hn := not_hasClose_of_not_closed hi (by simpa using hcl)
    simp only []
    generalize hs1 : setT (setClosed s) t _ = s1
    have hi1 : Inv g np c0 s1 := by rw [← hs1]; exact Inv_congr (wire_setT _ _ _) (Inv_setClosed hi)
    have hc1 : s1.closed = true := by rw [← hs1]; simp [setClosed]
    have hn1 : hasClose s1.frames = false := by rw [← hs1]; simpa [setClosed] using hn
    have key := Inv_sendFrame_close code 2 hi1 hc1 hn1
    split
    · next hp => exact Inv_congr (wire_park _ _ _) (key.2 hp)
    · exact Inv_congr (wire_srvCloseExc1 _ _ _) key.1
    · exact Inv_congr (wire_srvCloseAfterFrame _ _) key.1

theorem Inv_cliCloseAfterWait {s : St} (t : Tid) (code : Nat) (hi : Inv g np c0 s) :
    Inv g np c0 (cliCloseAfterWait s t code) := by
  unfold cliCloseAfterWait
  split
  · exact Inv_congr (wire_closeReturn _ _ _) hi
  · next hcl =>
    have hn := not_hasClose_of_not_closed hi (by simpa using hcl)
    simp only []
    generalize hs1 : setT (setClosed s) t _ = s1
    have hi1 : Inv g np c0 s1 := by rw [← hs1]; exact Inv_congr (wire_setT _ _ _) (Inv_setClosed hi)
    have hc1 : s1.closed = true := by rw [← hs1]; simp [setClosed]
    have hn1 : hasClose s1.frames = false := by rw [← hs1]; simpa [setClosed] using hn
    have key := Inv_sendFrame_close code 2 hi1 hc1 hn1
    split
    · next hp => exact Inv_congr (wire_park _ _ _) (key.2 hp)
    · exact Inv_congr (wire_cliCloseExc _ _ _) key.1
    · exact Inv_congr (wire_cliCloseAfterFrame _ _) key.1

theorem Inv_cliCloseEnter {s : St} (t : Tid) (code : Nat) (hi : Inv g np c0 s) : Inv g np c0 (cliCloseEnter s t code) := by
  unfold cliCloseEnter
  split
  · inv_same hi
  · exact Inv_cliCloseAfterWait t code hi

theorem Inv_closeEnter {s : St} (t : Tid) (code : Nat) (drain : Bool) (hi : Inv g np c0 s) :
    Inv g np c0 (closeEnter s t code drain) := by
  unfold closeEnter
  split
  · exact Inv_srvCloseEnter t code drain hi
  · exact Inv_cliCloseEnter t code hi

theorem Inv_recvNestedClose {s : St} (t : Tid) (code : Nat) (drain : Bool) (rr : RecvRes) (hi : Inv g np c0 s) :
    Inv g np c0 (recvNestedClose s t code drain rr) := by
  unfold recvNestedClose
  exact Inv_closeEnter t code drain (Inv_congr (wire_setT _ _ _) hi)

theorem Inv_recvExc {s : St} (t : Tid) (e : Exc) (hi : Inv g np c0 s) : Inv g np c0 (recvExc s t e) := by
  unfold recvExc
  split <;> first
    | inv_same hi
    | exact Inv_recvNestedClose _ _ _ _ (by inv_same hi)

theorem Inv_recvGot {s : St} (t : Tid) (r : Except Exc Msg) (hi : Inv g np c0 s) : Inv g np c0 (recvGot s t r).1 := by
  unfold recvGot
  split
  · exact Inv_recvExc _ _ hi
  · inv_same hi
  · inv_same hi
  · split
    · simp only []; split
      · exact Inv_recvNestedClose _ _ _ _ (by inv_same hi)
      · inv_same hi
    · simp only []; split
      · exact Inv_recvNestedClose _ _ _ _ (by inv_same hi)
      · inv_same hi
  · split <;> inv_same hi
  · split
    · have h1 := Inv_sendFrame (s := s) .pong 0 rfl hi
      simp only []
      split
      · exact h1
      · inv_same h1
      · inv_same h1
    · inv_same hi
  · split
    · exact hi
    · inv_same hi

theorem Inv_recvLoop {s : St} (t : Tid) (fuel : Nat) (hi : Inv g np c0 s) : Inv g np c0 (recvLoop s t fuel) := by
  induction fuel generalizing s with
  | zero => unfold recvLoop; inv_same hi
  | succ n ih =>
    unfold recvLoop
    split
    · inv_same hi
    · split
      · split
        · simp only []; split <;> inv_same hi
        · inv_same hi
      · split
        · split
          · inv_same hi
          · exact Inv_recvNestedClose _ _ _ _ hi
        · simp only []
          have hi1 : Inv g np c0 (recvBegin s t) := by
            unfold recvBegin; simp only []; split
            · split <;> inv_same hi
            · inv_same hi
          generalize recvBegin s t = s1 at hi1 ⊢
          split
          · split
            · apply Inv_recvExc; inv_same hi1
            · inv_same hi1
          · have hg : Inv g np c0 (recvGot (recvFinally (exitTmo (readFromBuffer s1).1 t none).1) t (readFromBuffer s1).2).1 := by
              apply Inv_recvGot; inv_same hi1
            split
            · exact ih hg
            · exact hg

theorem Inv_sendStart {s : St} (t : Tid) (fr : Frame) (n : Nat) (hf : fr.isClose = false) (hi : Inv g np c0 s) :
    Inv g np c0 (sendStart s t fr n) := by
  unfold sendStart
  have h1 := Inv_sendFrame (s := s) fr n hf hi
  simp only []
  split <;> inv_same h1

theorem Inv_recvAfterRead {s : St} (t : Tid) (r : Except Exc Msg) (hi : Inv g np c0 s) : Inv g np c0 (recvAfterRead s t r) := by
  unfold recvAfterRead
  simp only []
  (repeat' split) <;> first
    | (apply Inv_recvLoop; apply Inv_recvGot; inv_same hi)
    | (apply Inv_recvGot; inv_same hi)

theorem Inv_resumeRecvRead {s : St} (t : Tid) (rv : Option Exc) (hi : Inv g np c0 s) : Inv g np c0 (resumeRecvRead s t rv) := by
  unfold resumeRecvRead
  apply Inv_recvAfterRead
  unfold resumeReadValue
  simp only []
  split <;> split <;> inv_same hi

theorem Inv_runTask {s : St} (t : Tid) (hi : Inv g np c0 s) : Inv g np c0 (runTask s t) := by
  unfold runTask
  simp only []
  split
  · inv_same hi
  · split
    · inv_same hi
    · split
      · apply Inv_recvLoop; inv_same hi
      · apply Inv_closeEnter; inv_same hi
      · apply Inv_sendStart _ _ _ rfl; inv_same hi
      · apply Inv_sendStart _ _ _ rfl; inv_same hi
      · apply Inv_sendStart _ _ _ rfl; inv_same hi
  · split <;> inv_same hi
  · split
    · inv_same hi
    · apply Inv_recvLoop; inv_same hi
  · apply Inv_resumeRecvRead; inv_same hi
  · have h1 : Inv g np c0 { setT s t (fun x => { x with mustCancel := false, fut := .none }) with wClosing := true } :=
      Inv_setWClosing (by inv_same hi)
    split <;> inv_same h1
  · split <;> inv_same hi
  · split
    · inv_same hi
    · split
      · inv_same hi
      · apply Inv_cliCloseAfterWait; inv_same hi
  · refine Inv_congr (wire_resumeCloseRead _ _ _) ?_; inv_same hi

theorem Inv_pingTaskDone {s : St} (o : Option Outcome) (hi : Inv g np c0 s) : Inv g np c0 (pingTaskDone s o) := by
  unfold pingTaskDone
  simp only []
  split
  · inv_same hi
  · have := Inv_handlePingPongExc (s := s) ‹Exc› hi
    inv_same this
  · inv_same hi

theorem wire_hbBegin (s : St) (hb : Nat) : wire (hbBegin s hb) = wire s := by
  unfold hbBegin
  simp [wire]

theorem Inv_sendHeartbeat {s : St} (hi : Inv g np c0 s) : Inv g np c0 (sendHeartbeat s) := by
  unfold sendHeartbeat
  simp only []
  split
  · inv_same hi
  · split
    · inv_same hi
    · split
      · inv_same hi
      · next hb _ =>
        have h2 : Inv g np c0 (sendFrame (hbBegin { s with hbCb := false } hb) .ping 0).1 :=
          Inv_sendFrame .ping 0 rfl (Inv_congr (wire_hbBegin _ _) (by inv_same hi))
        split
        · inv_same h2
        · apply Inv_pingTaskDone; inv_same h2
        · apply Inv_pingTaskDone; inv_same h2

theorem Inv_pongNotReceived {s : St} (hi : Inv g np c0 s) : Inv g np c0 (pongNotReceived s) := by
  unfold pongNotReceived
  split
  · split
    · exact Inv_handlePingPongExc _ hi
    · exact hi
  · exact Inv_handlePingPongExc _ hi

theorem Inv_runCb {s : St} (cb : Cb) (hi : Inv g np c0 s) : Inv g np c0 (runCb s cb) := by
  unfold runCb
  split
  · exact Inv_runTask _ hi
  · exact Inv_congr (wire_connLost _ _) hi
  · split <;> inv_same hi
  · exact Inv_sendHeartbeat hi
  · exact Inv_pongNotReceived hi
  · inv_same hi
  · exact Inv_pingTaskDone _ hi

theorem Inv_of_wire_paused {s s' : St} (b : Bool) (h : wire s' = { wire s with paused := b })
    (hnp : np → b = false) (hsafe : Safe g s' → Safe g s) (hi : Inv g np c0 s) : Inv g np c0 s' := by
  have e := (Wire.mk.injEq _ _ _ _ _ _ _ _ _ _).mp h
  obtain ⟨e1, e2, e3, e4, e5⟩ := e
  apply Inv.mk'
  · exact e1.trans hi.ccfg
  · intro h; rw [e4]; exact hnp h
  · rw [e5, e2]; exact hi.c1
  · rw [e5]; exact hi.c2
  · intro hs; rw [e5, e3]; exact hi.c3 (hsafe hs)
  · intro hs; rw [e5]; exact hi.c4 (hsafe hs)

/-- One transition keeps the wire invariant.  `pauseW` is excluded in the "never write-paused" mode `np`;
`resumeW` may re-establish the premise `Safe`, so it needs `Safe` beforehand (repaired writer, or not
paused) unless the strong clauses are switched off (`¬ g`). -/
theorem Inv_step {s : St} (l : Label) (hp : l = .pauseW → ¬ np) (hr : l = .resumeW → ¬ g ∨ Safe g s)
    (hi : Inv g np c0 s) : Inv g np c0 (step s l) := by
  unfold step
  split
  · split <;> inv_same hi
  · split
    · exact Inv_congr (wire_cancelTask _ _) hi
    · exact hi
  · exact Inv_congr (wire_peerFrame _ _) hi
  · split <;> inv_same hi
  · split
    · refine Inv_of_wire_paused true rfl (fun h => absurd h (hp rfl)) ?_ hi
      intro hs
      refine ⟨hs.1, ?_⟩
      rcases hs.2 with h | h
      · exact Or.inl h
      · cases h
    · exact hi
  · split
    · have hsafe : ∀ s' : St, Safe g s' → Safe g s := by
        intro s' hs
        rcases hr rfl with h | h
        · exact absurd hs.1 h
        · exact h
      simp only []
      split
      · exact Inv_of_wire_paused false rfl (fun _ => rfl) (hsafe _) hi
      · exact Inv_of_wire_paused false rfl (fun _ => rfl) (hsafe _) hi
      · refine Inv_of_wire_paused false ?_ (fun _ => rfl) (hsafe _) hi
        simp [wire]
    · exact hi
  · split
    · apply Inv_runCb; inv_same hi
    · split
      · exact hi
      · inv_same hi
  · split
    · exact hi
    · split <;> inv_same hi

theorem Inv_init (cfg : Cfg) : Inv g np cfg (init cfg) := by
  have h : wire (init cfg) = ⟨cfg, false, false, false, []⟩ := by
    unfold init; simp only []; split <;> rfl
  unfold Inv; rw [h]
  exact ⟨rfl, fun _ => rfl, fun h => by simp [hasClose] at h, by simp [closeCount], fun _ h => by simp [hasClose] at h,
    fun _ => rfl⟩

end Aio.C13
