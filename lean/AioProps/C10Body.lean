import AioProps.C03Chunked
/-!
# C10: a protocol error never leaves a delivered body stream open

`error_ends_open_body`: if `feed_data` is called while a body is in progress (its stream was
handed to the application by an earlier call) and raises, the events of that call contain the
end of that body (`eof`) or an exception set on it (`payloadErr`) — the body's reader cannot be
left waiting behind the queued protocol error.
-/
namespace Aio.Http
open Aio

def KEof (k : LoopK) : Prop := ∀ p c evs rest evs', k p c evs = (.complete rest, evs') → Ev.eof ∈ evs'

theorem chunkEofStep_eof (cfg : Cfg) (k : LoopK) (hk : KEof k) : KEof (chunkEofStep cfg k) := by
  intro p c evs rest evs' h
  unfold chunkEofStep at h
  simp only [] at h
  split at h
  · exact hk _ _ _ _ _ h
  · split at h <;> cases h

theorem chunkStep_eof (cfg : Cfg) (k : LoopK) (hk : KEof k) : KEof (chunkStep cfg k) := by
  intro p c evs rest evs' h
  unfold chunkStep at h
  simp only [] at h
  split at h
  · cases h
  · exact chunkEofStep_eof cfg k hk _ _ _ _ _ h

theorem trailersStep_eof (cfg : Cfg) (k : LoopK) (hk : KEof k) : KEof (trailersStep cfg k) := by
  intro p c evs rest evs' h
  unfold trailersStep at h
  cases hf : findSep cfg.lax c with
  | none => simp only [hf] at h; split at h <;> cases h
  | some pos =>
    simp only [hf] at h
    split at h
    · cases h
    · split at h
      · cases h
      · split at h
        · split at h
          · cases h
          · injection h with h1 h2
            rw [← h2]; simp
        · exact hk _ _ _ _ _ h

theorem sizeStep_eof (cfg : Cfg) (k : LoopK) (hk : KEof k) : KEof (sizeStep cfg k) := by
  intro p c evs rest evs' h
  unfold sizeStep at h
  cases hf : findSep cfg.lax c with
  | none => simp only [hf] at h; split at h <;> cases h
  | some pos =>
    simp only [hf] at h
    split at h
    · cases h
    · cases hsz : chunkSizeOf cfg (c.take pos) with
      | none => simp [hsz] at h
      | some size =>
        simp only [hsz] at h
        split at h
        · exact trailersStep_eof cfg k hk _ _ _ _ _ h
        · exact chunkStep_eof cfg k hk _ _ _ _ _ h

theorem chunkedLoop_eof_ev (cfg : Cfg) : ∀ f, KEof (chunkedLoop cfg f) := by
  intro f
  induction f with
  | zero => intro p c evs rest evs' h; simp [chunkedLoop] at h
  | succ n ih =>
    intro p c evs rest evs' h
    rw [chunkedLoop] at h
    split at h
    · cases h
    · cases hcs : p.cstate with
      | size => simp only [hcs] at h; exact sizeStep_eof cfg _ ih _ _ _ _ _ h
      | chunk => simp only [hcs] at h; exact chunkStep_eof cfg _ ih _ _ _ _ _ h
      | chunkEof => simp only [hcs] at h; exact chunkEofStep_eof cfg _ ih _ _ _ _ _ h
      | trailers => simp only [hcs] at h; exact trailersStep_eof cfg _ ih _ _ _ _ _ h

/-- a body that completes reports its end -/
theorem payloadFeed_complete_eof (cfg : Cfg) (p : PState) (d rest : Bytes) (ev : List Ev)
    (h : payloadFeed cfg p d = (.complete rest, ev)) : Ev.eof ∈ ev := by
  unfold payloadFeed at h
  split at h
  · simp only [] at h
    split at h
    · injection h with h1 h2; rw [← h2]; simp
    · cases h
  · split at h
    · cases h
    · exact chunkedLoop_eof_ev cfg _ _ _ _ _ _ h
  · cases h
  · cases h

/-- **A protocol error never leaves a delivered body stream open.** -/
theorem error_ends_open_body (cfg : Cfg) (urlOk : Bool → Bytes → Bool) (f : Nat) (st : St) (p : PState) (d : Bytes)
    (e : Err) (hp : st.payload = some p) (herr : (feedLoop cfg urlOk f st d []).err = some e) :
    Ev.eof ∈ (feedLoop cfg urlOk f st d []).evs ∨ ∃ e', Ev.payloadErr e' ∈ (feedLoop cfg urlOk f st d []).evs := by
  cases f with
  | zero => simp [feedLoop] at herr
  | succ n =>
    by_cases hd : d = []
    · subst hd; rw [feedLoop_nil] at herr; cases herr
    · rw [feedLoop_succ cfg urlOk n st d [] hd, stepOnce_payload cfg urlOk st p d hp] at herr ⊢
      rcases hpf : payloadFeed cfg p d with ⟨r, pev⟩
      try rw [hpf] at herr
      cases r with
      | needs p' => simp at herr
      | err e' rr =>
        cases rr
        · simp at herr
        · exact Or.inr ⟨e', by simp⟩
      | complete rest =>
        have heof := payloadFeed_complete_eof cfg p d rest pev hpf
        simp only [] at herr ⊢
        split
        · rw [feedLoop_acc]
          exact Or.inl (by simp [heof])
        · exact Or.inl (by simp [heof])

end Aio.Http
