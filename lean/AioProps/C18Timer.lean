import AioModel.C18Timer
/-! C18 — theorems about the `TimerContext` cancel-counter machine (AioModel/C18Timer.lean). -/
namespace Aio.C18

def nExt : List TOp → Nat
  | [] => 0
  | .ext :: t => nExt t + 1
  | .fire :: t => nExt t
def hasFire : List TOp → Bool
  | [] => false
  | .fire :: _ => true
  | .ext :: t => hasFire t

theorem fold_op_spec (ops : List TOp) (s : TC) :
    (ops.foldl TC.op s).base = s.base ∧ (ops.foldl TC.op s).fired = (s.fired || hasFire ops) ∧
    (ops.foldl TC.op s).count = s.count + nExt ops + (!s.fired && hasFire ops).toNat := by
  induction ops generalizing s with
  | nil => simp [nExt, hasFire]
  | cons o os ih =>
    obtain ⟨h1, h2, h3⟩ := ih (s.op o)
    simp only [List.foldl_cons]
    cases o with
    | ext =>
      have e : s.op .ext = { s with count := s.count + 1 } := rfl
      rw [e] at h1 h2 h3 ⊢
      refine ⟨h1, by simpa [hasFire] using h2, ?_⟩
      rw [h3]
      show s.count + 1 + nExt os + (!s.fired && hasFire os).toNat = s.count + (nExt os + 1) + (!s.fired && hasFire os).toNat
      omega
    | fire =>
      cases hf : s.fired with
      | true =>
        have e : s.op .fire = s := by simp [TC.op, hf]
        rw [e] at h1 h2 h3 ⊢
        refine ⟨h1, by simp [h2, hf, hasFire], ?_⟩
        rw [h3]; simp [nExt, hasFire, hf]
      | false =>
        have e : s.op .fire = { s with fired := true, count := s.count + 1 } := by simp [TC.op, hf]
        rw [e] at h1 h2 h3 ⊢
        refine ⟨h1, by simp [h2, hasFire], ?_⟩
        rw [h3]; simp [nExt, hasFire]; omega

theorem exit1_spec (c : Nat) (ops : List TOp) (s : TC) (hb : s.base = c) (hf : s.fired = hasFire ops)
    (hc : s.count = c + nExt ops + (hasFire ops).toNat) :
    (s.exit1 (if s.count > c then .cancelled else .result)).2 =
        (if nExt ops > 0 then .cancelled else if hasFire ops then .timeout else .result) ∧
    (s.exit1 (if s.count > c then .cancelled else .result)).1.count = c + nExt ops := by
  unfold TC.exit1
  rcases hn : nExt ops with _ | k <;> cases hh : hasFire ops <;> simp_all <;> (try split) <;> simp_all <;>
    (try omega)

/-- **TimerContext (single context).** For every earlier-handled cancel count `c` and every
interleaving `ops` of the timer's cancel and external `Task.cancel()` calls while the task is parked:
the exit raises `TimeoutError` iff the timer fired and nobody else cancelled; it lets
`CancelledError` through iff somebody else cancelled; and the task's cancel count afterwards is
the count before plus the external requests — the timer's own request is always taken back, so a
pure timeout restores `task.cancelling()` exactly. -/
theorem tc_exit_spec (c : Nat) (ops : List TOp) :
    (tcRun c 1 ops).1 = (if nExt ops > 0 then .cancelled else if hasFire ops then .timeout else .result) ∧
    (tcRun c 1 ops).2 = c + nExt ops := by
  obtain ⟨hb, hf, hc⟩ := fold_op_spec ops ({ count := c, base := c } : TC)
  have := exit1_spec c ops _ hb (by simpa using hf) (by simpa using hc)
  simpa [tcRun, List.range_one, TC.enter, TC.exits] using this

/-- a genuine caller cancellation is never swallowed by a single context -/
theorem tc_caller_cancel_surfaces (c : Nat) (ops : List TOp) (h : TOp.ext ∈ ops) :
    (tcRun c 1 ops).1 = .cancelled := by
  have : nExt ops > 0 := by
    induction ops with
    | nil => cases h
    | cons o os ih =>
      cases o with
      | ext => simp [nExt]
      | fire =>
        simp only [nExt]
        exact ih (by cases h with | tail _ h' => exact h')
  rw [(tc_exit_spec c ops).1]; simp [this]

/-- the nested contexts of `_request` and `ClientResponse.start` share the task and the flag: both
exits call `uncancel()`, so ONE external cancellation coinciding with the timeout is swallowed
(TimeoutError, count back to `c`) — the behaviour of the code, reported as a finding -/
theorem tc_nested_swallows_one_cancel (c : Nat) : tcRun c 2 [.ext, .fire] = (.timeout, c) := by
  have h1 : c < c + 1 + 1 := by omega
  have h2 : ¬ (c < c) := by omega
  simp [tcRun, List.range, List.range.loop, TC.enter, TC.op, TC.exits, TC.exit1, h1, h2]

end Aio.C18
