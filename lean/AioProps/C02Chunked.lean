import AioProps.C03Chunked
import AioProps.C04Lemmas
import AioProps.HexLemmas
import AioProps.C04
import AioProps.C02
/-!
# C02: the receiver's chunked parser decodes what the sender's chunked writer emits

`C04.chunked_roundtrip` shows that the bytes a `StreamWriter` in chunked mode puts on the wire are
`encodeChunks ds ++ lastChunk`.  Here: `Aio.Http.payloadFeed` (the model of
`HttpPayloadParser.feed_data`, strict *and* lax) on those bytes followed by anything (`rest`, e.g.
the next message) completes the body, leaves exactly `rest`, and delivers exactly the data
written.  This closes the gap named at `C02.response_roundtrip_chunked_partial`.
-/
namespace Aio.Http
open Aio

theorem toHex_all (P : UInt8 → Prop) (hP : ∀ d, d < 16 → P (hexDigit d)) (n : Nat) : ∀ b ∈ toHex n, P b := by
  induction n using Nat.strongRecOn with
  | _ n ih =>
    rw [toHex]
    split
    · next h => intro b hb; simp at hb; subst hb; exact hP n h
    · next h =>
      intro b hb
      rcases List.mem_append.mp hb with hb | hb
      · exact ih (n / 16) (by omega) b hb
      · simp at hb; subst hb; exact hP _ (Nat.mod_lt _ (by decide))

theorem hexDigit_cases (P : UInt8 → Prop) (h : ∀ d : Fin 16, P (hexDigit d.val)) : ∀ d, d < 16 → P (hexDigit d) :=
  fun d hd => h ⟨d, hd⟩

theorem hexDigit_isHex : ∀ d, d < 16 → isHexB (hexDigit d) = true :=
  hexDigit_cases (fun b => isHexB b = true) (by decide +kernel)
theorem hexDigit_not_ws : ∀ d, d < 16 → isBytesWs (hexDigit d) = false :=
  hexDigit_cases (fun b => isBytesWs b = false) (by decide +kernel)
theorem hexDigit_ne_semi : ∀ d, d < 16 → hexDigit d ≠ 59 :=
  hexDigit_cases (fun b => b ≠ 59) (by decide +kernel)
theorem hexDigit_ne_lf : ∀ d, d < 16 → hexDigit d ≠ 10 :=
  hexDigit_cases (fun b => b ≠ 10) (by decide +kernel)
theorem hexDigit_ne_cr : ∀ d, d < 16 → hexDigit d ≠ 13 :=
  hexDigit_cases (fun b => b ≠ 13) (by decide +kernel)

theorem findCRLF_prefix (x Y : Bytes) (h : (13 : UInt8) ∉ x) : findCRLF (x ++ 13 :: 10 :: Y) = some x.length := by
  induction x with
  | nil => simp [findCRLF]
  | cons b t ih =>
    have hb : b ≠ 13 := by intro e; subst e; simp at h
    have ht : (13 : UInt8) ∉ t := by intro e; exact h (List.mem_cons_of_mem _ e)
    cases hh : t ++ 13 :: 10 :: Y with
    | nil => simp at hh
    | cons y ys =>
      simp only [List.cons_append, hh, findCRLF]
      rw [← hh, ih ht]
      simp [hb]

theorem findByte_prefix (c : UInt8) (x Y : Bytes) (h : c ∉ x) : findByte c (x ++ c :: Y) = some x.length := by
  induction x with
  | nil => simp [findByte]
  | cons b t ih =>
    have hb : b ≠ c := by intro e; subst e; simp at h
    have ht : c ∉ t := by intro e; exact h (List.mem_cons_of_mem _ e)
    simp [findByte, hb, ih ht]

theorem findByte_none_of_not_mem (c : UInt8) (x : Bytes) (h : c ∉ x) : findByte c x = none := by
  induction x with
  | nil => rfl
  | cons b t ih =>
    have hb : b ≠ c := by intro e; subst e; simp at h
    have ht : c ∉ t := by intro e; exact h (List.mem_cons_of_mem _ e)
    simp [findByte, hb, ih ht]

theorem lstrip_id (p : UInt8 → Bool) (x : Bytes) (h : ∀ b, x.head? = some b → p b = false) : lstrip p x = x := by
  cases x with
  | nil => rfl
  | cons b t => simp [lstrip, h b rfl]

theorem rstrip_snoc (p : UInt8 → Bool) (x : Bytes) (c : UInt8) (hc : p c = true) : rstrip p (x ++ [c]) = rstrip p x := by
  simp [rstrip, lstrip, hc]

theorem rstrip_id (p : UInt8 → Bool) (x : Bytes) (h : ∀ b, x.getLast? = some b → p b = false) : rstrip p x = x := by
  unfold rstrip
  rw [lstrip_id p x.reverse (by intro b hb; apply h b; simpa [List.head?_reverse] using hb)]
  simp

/-- the chunk-size line the writer produces (`toHex n`, in lax mode seen with its CR) reads as `n` -/
theorem chunkSizeOf_toHex (cfg : Cfg) (n : Nat) :
    chunkSizeOf cfg (if cfg.lax then toHex n ++ [13] else toHex n) = some n := by
  have hne := toHex_ne_nil n
  have hsemi : (59 : UInt8) ∉ toHex n := fun h => toHex_all (· ≠ 59) hexDigit_ne_semi n 59 h rfl
  have hhex : (toHex n).all isHexB = true := by
    rw [List.all_eq_true]; exact toHex_all _ hexDigit_isHex n
  have hws : ∀ b ∈ toHex n, isBytesWs b = false := toHex_all _ hexDigit_not_ws n
  have hempty : (toHex n).isEmpty = false := by cases h : toHex n <;> simp_all
  unfold chunkSizeOf
  cases hl : cfg.lax
  · simp only [Bool.false_eq_true, if_false]
    rw [findByte_none_of_not_mem 59 _ hsemi]
    simp [hempty, hhex, ofHex_toHex]
  · simp only [if_true]
    have hsemi' : (59 : UInt8) ∉ toHex n ++ [13] := by
      intro h; rcases List.mem_append.mp h with h | h
      · exact hsemi h
      · simp at h
    rw [findByte_none_of_not_mem 59 _ hsemi']
    have hstrip : strip isBytesWs (toHex n ++ [13]) = toHex n := by
      unfold strip
      rw [lstrip_id isBytesWs (toHex n ++ [13]) (by
        intro b hb
        cases h : toHex n with
        | nil => exact absurd h hne
        | cons y ys => rw [h] at hb; simp at hb; subst hb; exact hws y (by rw [h]; simp))]
      rw [rstrip_snoc isBytesWs _ 13 (by decide)]
      exact rstrip_id isBytesWs _ (by intro b hb; exact hws b (List.mem_of_getLast? hb))
    simp [hstrip, hempty, hhex, ofHex_toHex]

end Aio.Http

namespace Aio.Http
open Aio

/-- a body-parser state at a chunk boundary, before any trailer line -/
structure AtSize (p : PState) : Prop where
  cs : p.cstate = .size
  tl : p.trailerLines = []
  mt : 1 ≤ p.maxTrailers

theorem toHex_zero : toHex 0 = [48] := by rw [toHex]; simp [hexDigit]

theorem parseHeaders_blank (lax : Bool) (mf : Nat) : parseHeaders lax mf [[]] = .ok [] := by
  simp [parseHeaders, parseHeaderLines]

/-- the last chunk `0 CRLF CRLF` completes the body and leaves what follows untouched -/
theorem chunkedLoop_lastChunk (cfg : Cfg) (f : Nat) (p : PState) (rest : Bytes) (evs : List Ev)
    (hp : AtSize p) (hml : 2 ≤ cfg.maxLine) :
    chunkedLoop cfg (f + 1) p (C04.lastChunk ++ rest) evs = (.complete rest, evs ++ [.eof]) := by
  have hsz := chunkSizeOf_toHex cfg 0
  rw [toHex_zero] at hsz
  rw [chunkedLoop_size cfg f p _ evs (by simp [C04.lastChunk]) hp.cs]
  unfold sizeStep
  cases hl : cfg.lax
  · simp only [hl, Bool.false_eq_true, if_false] at hsz
    have hf : findSep false (C04.lastChunk ++ rest) = some 1 := by
      simp [findSep, C04.lastChunk, findCRLF]
    simp only [hf]
    have ht : (C04.lastChunk ++ rest).take 1 = [48] := by simp [C04.lastChunk]
    have hd : (C04.lastChunk ++ rest).drop (1 + sepLen false) = 13 :: 10 :: rest := by simp [C04.lastChunk, sepLen]
    rw [ht, hd, hsz]
    have h1 : ¬ (1 > cfg.maxLine) := by omega
    simp only [h1, if_false, beq_self_eq_true, if_true]
    unfold trailersStep
    have hf2 : findSep false (13 :: 10 :: rest) = some 0 := by simp [findSep, findCRLF]
    simp only [hl, hf2]
    simp [trailerLine, trailerRawLen, hp.tl, sepLen, parseHeaders_blank]
    have := hp.mt
    omega
  · simp only [hl, if_true, List.cons_append, List.nil_append] at hsz
    have hf : findSep true (C04.lastChunk ++ rest) = some 2 := by
      simp [findSep, C04.lastChunk, findByte]
    simp only [hf]
    have ht : (C04.lastChunk ++ rest).take 2 = [48, 13] := by simp [C04.lastChunk]
    have hd : (C04.lastChunk ++ rest).drop (2 + sepLen true) = 13 :: 10 :: rest := by simp [C04.lastChunk, sepLen]
    rw [ht, hd, hsz]
    have h1 : ¬ (2 > cfg.maxLine) := by omega
    simp only [h1, if_false, beq_self_eq_true, if_true]
    unfold trailersStep
    have hf2 : findSep true (13 :: 10 :: rest) = some 1 := by simp [findSep, findByte]
    simp only [hl, hf2]
    simp [trailerLine, trailerRawLen, hp.tl, sepLen, parseHeaders_blank, rstrip, lstrip]
    have := hp.mt
    omega

end Aio.Http

namespace Aio.Http
open Aio

/-- one frame `hex(len) CRLF data CRLF` of the writer: the data is delivered as one chunk and the
parser is back at a chunk boundary -/
theorem chunkedLoop_frame (cfg : Cfg) (f : Nat) (p : PState) (d Y : Bytes) (evs : List Ev)
    (hp : AtSize p) (hd : d ≠ []) (hfit : (toHex d.length).length + 1 ≤ cfg.maxLine) :
    ∃ p', AtSize p' ∧ chunkedLoop cfg (f + 1) p (C04.chunkFrame d ++ Y) evs =
      chunkedLoop cfg f p' Y (evs ++ [.beginChunk] ++ dataEv d ++ [.endChunk]) := by
  have hn : d.length ≠ 0 := by intro h0; exact hd (List.eq_nil_of_length_eq_zero h0)
  have hsz := chunkSizeOf_toHex cfg d.length
  have hcr : (13 : UInt8) ∉ toHex d.length := fun h => toHex_all (· ≠ 13) hexDigit_ne_cr _ 13 h rfl
  have hlf : (10 : UInt8) ∉ toHex d.length := fun h => toHex_all (· ≠ 10) hexDigit_ne_lf _ 10 h rfl
  have e : C04.chunkFrame d ++ Y = toHex d.length ++ 13 :: 10 :: (d ++ 13 :: 10 :: Y) := by
    simp [C04.chunkFrame, CRLF]
  have hne : C04.chunkFrame d ++ Y ≠ [] := by rw [e]; simp
  refine ⟨{ p with cstate := .size, chunkSize := 0 }, ⟨rfl, hp.tl, hp.mt⟩, ?_⟩
  rw [chunkedLoop_size cfg f p _ evs hne hp.cs, e]
  unfold sizeStep
  cases hl : cfg.lax
  · simp only [hl, Bool.false_eq_true, if_false] at hsz
    have hf : findSep false (toHex d.length ++ 13 :: 10 :: (d ++ 13 :: 10 :: Y)) = some (toHex d.length).length := by
      simp only [findSep, Bool.false_eq_true, if_false]; exact findCRLF_prefix _ _ hcr
    simp only [hf]
    have ht : (toHex d.length ++ 13 :: 10 :: (d ++ 13 :: 10 :: Y)).take (toHex d.length).length = toHex d.length := by simp
    have hdr : (toHex d.length ++ 13 :: 10 :: (d ++ 13 :: 10 :: Y)).drop ((toHex d.length).length + sepLen false)
        = d ++ 13 :: 10 :: Y := by
      simp [sepLen, List.drop_append]
    rw [ht, hdr, hsz]
    have h1 : ¬ ((toHex d.length).length > cfg.maxLine) := by omega
    have h2 : (d.length == 0) = false := by simpa using hn
    simp only [h1, if_false, h2, Bool.false_eq_true]
    unfold chunkStep
    have h3 : d.length - (d ++ 13 :: 10 :: Y).length = 0 := by simp
    simp only [h3, bne_self_eq_false, Bool.false_eq_true, if_false]
    have h4 : (d ++ 13 :: 10 :: Y).take d.length = d := by simp
    have h5 : (d ++ 13 :: 10 :: Y).drop d.length = 13 :: 10 :: Y := by simp
    rw [h4, h5]
    unfold chunkEofStep
    simp [hl, skipCR, sepLen, sepBytes]
  · simp only [hl, if_true] at hsz
    have hf : findSep true (toHex d.length ++ 13 :: 10 :: (d ++ 13 :: 10 :: Y)) = some ((toHex d.length).length + 1) := by
      simp only [findSep, if_true]
      have : toHex d.length ++ 13 :: 10 :: (d ++ 13 :: 10 :: Y) = (toHex d.length ++ [13]) ++ 10 :: (d ++ 13 :: 10 :: Y) := by simp
      rw [this, findByte_prefix 10 _ _ (by
        intro h; rcases List.mem_append.mp h with h | h
        · exact hlf h
        · simp at h)]
      simp
    simp only [hf]
    have ht : (toHex d.length ++ 13 :: 10 :: (d ++ 13 :: 10 :: Y)).take ((toHex d.length).length + 1) = toHex d.length ++ [13] := by
      rw [List.take_append, List.take_of_length_le (by omega)]
      simp
    have hdr : (toHex d.length ++ 13 :: 10 :: (d ++ 13 :: 10 :: Y)).drop ((toHex d.length).length + 1 + sepLen true)
        = d ++ 13 :: 10 :: Y := by
      have e2 : (toHex d.length).length + 1 + sepLen true - (toHex d.length).length = 2 := by simp [sepLen]; omega
      rw [List.drop_append, List.drop_eq_nil_of_le (by simp [sepLen]; omega), e2]
      simp
    rw [ht, hdr, hsz]
    have h1 : ¬ ((toHex d.length).length + 1 > cfg.maxLine) := by omega
    have h2 : (d.length == 0) = false := by simpa using hn
    simp only [h1, if_false, h2, Bool.false_eq_true]
    unfold chunkStep
    have h3 : d.length - (d ++ 13 :: 10 :: Y).length = 0 := by simp
    simp only [h3, bne_self_eq_false, Bool.false_eq_true, if_false]
    have h4 : (d ++ 13 :: 10 :: Y).take d.length = d := by simp
    have h5 : (d ++ 13 :: 10 :: Y).drop d.length = 13 :: 10 :: Y := by simp
    rw [h4, h5]
    unfold chunkEofStep
    simp [hl, skipCR, sepLen, sepBytes]

/-- every frame's size line fits the line limit (`hex(len)` plus its CR) -/
def FramesFit (cfg : Cfg) (ds : List Bytes) : Prop := ∀ d ∈ ds, (toHex d.length).length + 1 ≤ cfg.maxLine

theorem dataOf_append (a b : List Ev) : dataOf (a ++ b) = dataOf a ++ dataOf b := by
  induction a with
  | nil => rfl
  | cons e t ih => cases e <;> simp [dataOf, ih]

theorem chunkedLoop_encodeChunks (cfg : Cfg) (rest : Bytes) (hml : 2 ≤ cfg.maxLine) :
    ∀ (ds : List Bytes) (f : Nat) (p : PState) (evs : List Ev), AtSize p → FramesFit cfg ds →
      (C04.encodeChunks ds ++ C04.lastChunk ++ rest).length < f →
      ∃ E, chunkedLoop cfg f p (C04.encodeChunks ds ++ C04.lastChunk ++ rest) evs = (.complete rest, evs ++ E) ∧
        dataOf E = ds.flatten := by
  intro ds
  induction ds with
  | nil =>
    intro f p evs hp _ hf
    cases f with
    | zero => omega
    | succ n =>
      refine ⟨[.eof], ?_, rfl⟩
      simpa [C04.encodeChunks] using chunkedLoop_lastChunk cfg n p rest evs hp hml
  | cons d ds ih =>
    intro f p evs hp hfit hf
    have hfit' : FramesFit cfg ds := fun x hx => hfit x (List.mem_cons_of_mem _ hx)
    by_cases hd : d = []
    · subst hd
      have e : C04.encodeChunks ([] :: ds) = C04.encodeChunks ds := by simp [C04.encodeChunks, C04.frameOf]
      rw [e] at hf ⊢
      simpa using ih f p evs hp hfit' hf
    · have e : C04.encodeChunks (d :: ds) ++ C04.lastChunk ++ rest
          = C04.chunkFrame d ++ (C04.encodeChunks ds ++ C04.lastChunk ++ rest) := by
        have : d.isEmpty = false := by cases d <;> simp_all
        simp [C04.encodeChunks, C04.frameOf, this]
      rw [e] at hf ⊢
      cases f with
      | zero => omega
      | succ n =>
        obtain ⟨p', hp', hstep⟩ := chunkedLoop_frame cfg n p d _ evs hp hd (hfit d (List.mem_cons_self ..))
        rw [hstep]
        have hlen : 1 ≤ (C04.chunkFrame d).length := by
          have := List.length_pos_iff.mpr (toHex_ne_nil d.length)
          simp [C04.chunkFrame]; omega
        obtain ⟨E, hE, hdata⟩ := ih n p' (evs ++ [.beginChunk] ++ dataEv d ++ [.endChunk]) hp' hfit'
          (by simp at hf ⊢; omega)
        refine ⟨[.beginChunk] ++ dataEv d ++ [.endChunk] ++ E, ?_, ?_⟩
        · rw [hE]; simp
        · have : dataOf ([Ev.beginChunk] ++ dataEv d ++ [Ev.endChunk] ++ E) = d ++ dataOf E := by
            have h1 : [Ev.beginChunk] ++ dataEv d ++ [Ev.endChunk] ++ E = Ev.beginChunk :: (dataEv d ++ (Ev.endChunk :: E)) := by simp
            rw [h1]
            show dataOf (dataEv d ++ (Ev.endChunk :: E)) = _
            rw [dataOf_dataEv]; simp [dataOf]
          rw [this, hdata]; simp

/-- **Receiver ∘ sender = identity for chunked bodies.** The body parser at the start of a
chunked body (strict or lax), fed in one call the bytes a chunked `StreamWriter` produces for the
writes `ds` (`encodeChunks ds ++ lastChunk`, see `C04.chunked_roundtrip`) followed by any bytes
`rest`: the body is complete, exactly `rest` is left for the next message, and the data
delivered is exactly the data written. -/
theorem payloadFeed_encodeChunks (cfg : Cfg) (p : PState) (ds : List Bytes) (rest : Bytes)
    (ht : p.type = .chunked) (htl : p.tail = []) (hp : AtSize p) (hml : 2 ≤ cfg.maxLine) (hfit : FramesFit cfg ds) :
    ∃ E, payloadFeed cfg p (C04.encodeChunks ds ++ C04.lastChunk ++ rest) = (.complete rest, E) ∧
      dataOf E = ds.flatten := by
  rw [payloadFeed_chunked cfg p _ ht]
  have hnt : chunkTailTooLong cfg p = false := by simp [chunkTailTooLong, htl]
  simp only [hnt, Bool.false_eq_true, if_false, htl, List.nil_append]
  obtain ⟨E, hE, hd⟩ := chunkedLoop_encodeChunks cfg rest hml ds _ { p with tail := [] } [] ⟨hp.cs, hp.tl, hp.mt⟩ hfit
    (Nat.lt_succ_self _)
  exact ⟨E, by simpa using hE, hd⟩

end Aio.Http

namespace Aio.C02
open Aio

/-- **Round trip of a chunked body, sender to receiver (full).**  The writer as
`_prepare_headers` leaves it in chunked mode, any program of `write`/`send_headers` calls ended
by `write_eof(d)` / `set_eof()`: the wire carries the header block and then a body which the
*receiver's own chunked parser* (`HttpPayloadParser.feed_data`, strict or lax, at the start of a
chunked body) turns into exactly the data written, reporting the body complete and leaving
whatever follows (`rest`, e.g. the next message on the connection) untouched.  Side conditions:
each written chunk's size line fits the receiver's line limit (`hex(len)` + 1 ≤ `max_line_size`;
with the default 8190 that is every chunk shorter than 16^8189 bytes), `max_line_size ≥ 2`, and
room for at least the blank trailer line. By `resp_framing_agree` the receiver expects a chunked
body exactly when the sender's decision layer chose chunked framing. -/
theorem response_roundtrip_chunked (cfg : Http.Cfg) (hb : Bytes) (ops : List C04.BodyOp) (fin : Option Bytes)
    (rest : Bytes) (p : Http.PState) (hhb : hb ≠ [])
    (ht : p.type = .chunked) (htl : p.tail = []) (hp : Http.AtSize p) (hml : 2 ≤ cfg.maxLine)
    (hfit : Http.FramesFit cfg (C04.writtenChunks ops fin)) :
    let r := C04.run (mkWriter none true hb) (ops.map C04.BodyOp.toOp ++ [C04.finOp fin])
    ∃ body E, r.1.out = hb ++ body ∧ r.1.eof = true ∧ (∀ e ∈ r.2, e = none) ∧
      Http.payloadFeed cfg p (body ++ rest) = (.complete rest, E) ∧
      Http.dataOf E = (ops.map C04.BodyOp.data).flatten ++ fin.getD [] := by
  intro r
  have hw : C04.ChunkedReady (mkWriter none true hb) :=
    ⟨rfl, rfl, rfl, rfl, rfl, Or.inr ⟨hb, rfl, hhb, rfl⟩⟩
  have hfl : C04.flushed (mkWriter none true hb) = hb := by
    cases hb with
    | nil => exact absurd rfl hhb
    | cons a t => simp [C04.flushed, C04.pendingHeaders, mkWriter]
  obtain ⟨h1, h2, h3⟩ := C04.chunked_wire _ hw ops fin
  obtain ⟨E, hE, hd⟩ := Http.payloadFeed_encodeChunks cfg p (C04.writtenChunks ops fin) rest ht htl hp hml hfit
  refine ⟨_, E, by rw [← hfl]; exact h1, h2, h3, hE, ?_⟩
  rw [hd]
  cases fin <;> simp [C04.writtenChunks]

end Aio.C02

namespace Aio.C02
open Aio
/-- Non-vacuity: the default strict parser at the start of a chunked body and a 3-byte write meet
the hypotheses of `response_roundtrip_chunked`. -/
example : Http.AtSize ({ type := .chunked, maxTrailers := 100 } : Http.PState) ∧
    2 ≤ ({} : Http.Cfg).maxLine ∧ Http.FramesFit {} (C04.writtenChunks [.write [1, 2, 3]] none) := by
  refine ⟨⟨rfl, rfl, by decide⟩, by decide, ?_⟩
  intro d hd
  simp [C04.writtenChunks, C04.BodyOp.data] at hd
  subst hd
  rw [toHex]
  decide
end Aio.C02
