import AioModel.C05
/-!
# C05 — helper lemmas

Frame lemmas (which fields each transcribed function leaves alone) and the inductive step of
the invariants used in `AioProps/C05.lean`.
-/
namespace Aio.C05
open Aio

/-! ## `waiter`, `hpc`, `spc`, `messages` frames of the small helpers -/

@[simp] theorem setP_waiter (s : St) (i p) : (setP s i p).waiter = s.waiter := rfl
@[simp] theorem setP_hpc (s : St) (i p) : (setP s i p).hpc = s.hpc := rfl
@[simp] theorem setP_spc (s : St) (i p) : (setP s i p).spc = s.spc := rfl
@[simp] theorem setP_messages (s : St) (i p) : (setP s i p).messages = s.messages := rfl
@[simp] theorem pushCb_waiter (s : St) (c) : (pushCb s c).waiter = s.waiter := rfl
@[simp] theorem pushCb_hpc (s : St) (c) : (pushCb s c).hpc = s.hpc := rfl
@[simp] theorem pushCb_spc (s : St) (c) : (pushCb s c).spc = s.spc := rfl
@[simp] theorem pushCb_messages (s : St) (c) : (pushCb s c).messages = s.messages := rfl

/-- the part of the state the lost-wake-up invariant talks about -/
structure Core where
  waiter : Waiter
  hpc : HPc
  spc : SPc
  messages : List QMsg
deriving DecidableEq

def core (s : St) : Core := ⟨s.waiter, s.hpc, s.spc, s.messages⟩

@[simp] theorem core_setP (s : St) (i p) : core (setP s i p) = core s := rfl
@[simp] theorem core_pushCb (s : St) (c) : core (pushCb s c) = core s := rfl

/-- split every `if`/`match` of an unfolded helper and close the leaves by reflexivity / simp -/
macro "frame" : tactic =>
  `(tactic| ((try simp only []); (repeat' split) <;> (first | rfl | (simp; done) | (simp; rfl) | (simp_all; done))))

@[simp] theorem core_wakeP (s : St) (i b) : core (wakeP s i b) = core s := by
  unfold wakeP; frame

@[simp] theorem core_protoResumeNoParse (s : St) : core (protoResumeNoParse s) = core s := by
  unfold protoResumeNoParse; frame

@[simp] theorem core_payloadEvent (s : St) (i c e x) : core (payloadEvent s i c e x) = core s := by
  unfold payloadEvent; frame

@[simp] theorem core_pauseMsgQ (s : St) : core (pauseMsgQ s) = core s := by
  unfold pauseMsgQ; frame

@[simp] theorem core_applyOlds (s : St) (l) : core (applyOlds s l) = core s := by
  induction l generalizing s with
  | nil => rfl
  | cons e es ih => simp [applyOlds, ih]

@[simp] theorem core_transportClose (s : St) : core (transportClose s) = core s := by
  unfold transportClose; frame

@[simp] theorem core_cancelLinger (s : St) : core (cancelLinger s) = core s := rfl
@[simp] theorem core_cancelKa (s : St) : core (cancelKa s) = core s := rfl
@[simp] theorem core_updCur (s : St) (f) : core (updCur s f) = core s := rfl
@[simp] theorem core_emit (s : St) (e) : core (emit s e) = core s := rfl

/-! ## protocol-level helpers never arm the waiter and never touch the coroutine states -/

/-- `s'` is reached from `s` by code that does not move either coroutine and can only
*resolve/cancel* the waiter; if the waiter is still pending the queue is unchanged -/
def Step0 (s s' : St) : Prop :=
  s'.hpc = s.hpc ∧ s'.spc = s.spc ∧ (s'.waiter = .pending → s.waiter = .pending ∧ s'.messages = s.messages)

theorem Step0.refl (s : St) : Step0 s s := ⟨rfl, rfl, fun h => ⟨h, rfl⟩⟩

theorem Step0.trans {a b c : St} (h1 : Step0 a b) (h2 : Step0 b c) : Step0 a c := by
  refine ⟨h2.1.trans h1.1, h2.2.1.trans h1.2.1, fun h => ?_⟩
  obtain ⟨hb, hm⟩ := h2.2.2 h
  obtain ⟨ha, hm'⟩ := h1.2.2 hb
  exact ⟨ha, hm.trans hm'⟩

theorem Step0.of_core {s s' : St} (h : core s' = core s) : Step0 s s' := by
  have h' := h
  simp only [core, Core.mk.injEq] at h'
  obtain ⟨hw, hh, hs, hm⟩ := h'
  exact ⟨hh, hs, fun hp => ⟨by rw [← hw]; exact hp, hm⟩⟩

/-- the fields the queueing helpers never touch -/
def w3 (s : St) : Waiter × HPc × SPc := (s.waiter, s.hpc, s.spc)

theorem w3_of_core {s s' : St} (h : core s' = core s) : w3 s' = w3 s := by
  simp only [core, Core.mk.injEq] at h
  simp [w3, h.1, h.2.1, h.2.2.1]

@[simp] theorem w3_protoResumeNoParse (s : St) : w3 (protoResumeNoParse s) = w3 s :=
  w3_of_core (core_protoResumeNoParse s)

@[simp] theorem w3_appendMsgs (s : St) (ms) : w3 (appendMsgs s ms) = w3 s := by
  induction ms generalizing s with
  | nil => rfl
  | cons m ms ih =>
    simp only [appendMsgs]
    split <;> simp [ih] <;> rfl

@[simp] theorem w3_appendErr (s : St) : w3 (appendErr s) = w3 s := rfl

@[simp] theorem w3_enqueueOut (s : St) (o) : w3 (enqueueOut s o) = w3 s := by
  unfold enqueueOut; split
  · rfl
  · simp

theorem enqueueOut_nothing (s : St) (o : POut) (h : (o.raised || !o.msgs.isEmpty) = false) :
    (enqueueOut s o).messages = s.messages := by
  simp at h
  unfold enqueueOut
  simp [h.1, h.2, appendMsgs]

theorem step0_of_w3_msgs {s s' : St} (h : w3 s' = w3 s) (hm : s'.messages = s.messages) : Step0 s s' := by
  simp only [w3, Prod.mk.injEq] at h
  exact ⟨h.2.1, h.2.2, fun hp => ⟨by rw [← h.1]; exact hp, hm⟩⟩

theorem notifyWaiter_spec (s : St) (got : Bool) :
    (notifyWaiter s got).hpc = s.hpc ∧ (notifyWaiter s got).spc = s.spc ∧
    (notifyWaiter s got).messages = s.messages ∧
    ((notifyWaiter s got).waiter = .pending → s.waiter = .pending ∧ got = false) := by
  unfold notifyWaiter
  split
  · next h =>
    refine ⟨rfl, rfl, rfl, ?_⟩
    intro hp; simp [pushCb] at hp
  · next h =>
    refine ⟨rfl, rfl, rfl, ?_⟩
    intro hp
    refine ⟨hp, ?_⟩
    cases got
    · rfl
    · simp [hp] at h

@[simp] theorem core_checkPause (s : St) : core (checkPause s) = core s := by
  unfold checkPause; frame

@[simp] theorem core_setUpgraded (s : St) (o) : core (setUpgraded s o) = core s := by
  unfold setUpgraded; frame

@[simp] theorem core_bufferTail (s : St) (n) : core (bufferTail s n) = core s := by
  unfold bufferTail; frame

@[simp] theorem core_parserCall (s : St) : core (parserCall s).2 = core s := by
  unfold parserCall; split <;> rfl

theorem dataReceived_step0 (s : St) (n : Nat) : Step0 s (dataReceived s n) := by
  unfold dataReceived
  split
  · exact Step0.refl s
  · split
    · simp only []
      generalize hr : parserCall s = r
      have hc : core r.2 = core s := by rw [← hr]; exact core_parserCall s
      have h1 : core (applyOlds r.2 r.1.olds) = core s := by simp [hc]
      refine Step0.trans (b := notifyWaiter (enqueueOut (applyOlds r.2 r.1.olds) r.1) (r.1.raised || !r.1.msgs.isEmpty)) ?_
        (Step0.of_core (by simp))
      obtain ⟨n1, n2, n3, n4⟩ := notifyWaiter_spec (enqueueOut (applyOlds r.2 r.1.olds) r.1) (r.1.raised || !r.1.msgs.isEmpty)
      have hw := w3_enqueueOut (applyOlds r.2 r.1.olds) r.1
      have hw' := w3_of_core h1
      simp only [w3, Prod.mk.injEq] at hw hw'
      refine ⟨by rw [n1, hw.2.1, hw'.2.1], by rw [n2, hw.2.2, hw'.2.2], fun hp => ?_⟩
      obtain ⟨hp1, hgot⟩ := n4 hp
      refine ⟨by rw [← hw'.1, ← hw.1]; exact hp1, ?_⟩
      rw [n3, enqueueOut_nothing _ _ hgot]
      simp only [core, Core.mk.injEq] at h1
      exact h1.2.2.2
    · split
      · exact Step0.of_core (by simp)
      · exact Step0.refl s

theorem resumeMsgQ_step0 (s : St) : Step0 s (resumeMsgQ s) := by
  unfold resumeMsgQ
  split
  · exact Step0.refl s
  · simp only []
    split
    · -- not upgraded: re-parse
      have h := dataReceived_step0 s 0
      split
      · exact h
      · split
        · exact h.trans (Step0.of_core rfl)
        · exact h.trans (Step0.of_core rfl)
    · split
      · exact Step0.refl s
      · split <;> exact Step0.of_core rfl

theorem protoResume_step0 (s : St) : Step0 s (protoResume s) := by
  unfold protoResume
  simp only []
  split
  · have h := dataReceived_step0 { s with readingPaused := false } 0
    have h0 : Step0 s { s with readingPaused := false } := Step0.of_core rfl
    split
    · exact (h0.trans h).trans (Step0.of_core rfl)
    · exact h0.trans h
  · split <;> exact Step0.of_core rfl

theorem drainChunks_step0 (s : St) (i n : Nat) : Step0 s (drainChunks s i n) := by
  induction n generalizing s with
  | zero => exact Step0.refl s
  | succ n ih =>
    simp only [drainChunks]
    refine Step0.trans ?_ (ih _)
    exact (Step0.of_core (by simp)).trans (protoResume_step0 _)

theorem cancelWaiter_step0 (s : St) : Step0 s (cancelWaiter s) := by
  unfold cancelWaiter
  split
  · exact ⟨rfl, rfl, fun h => by simp [pushCb] at h⟩
  · exact Step0.refl s

theorem forceClose_step0 (s : St) : Step0 s (forceClose s) := by
  unfold forceClose
  simp only []
  have h1 : Step0 s { s with forceClose := true } := Step0.of_core rfl
  have h2 := cancelWaiter_step0 { s with forceClose := true }
  split
  · exact (h1.trans h2).trans (Step0.of_core
      ((rfl : core { transportClose _ with tPresent := false } = core (transportClose _)).trans (core_transportClose _)))
  · exact h1.trans h2

theorem closeConn_step0 (s : St) : Step0 s (closeConn s) := by
  unfold closeConn
  exact (Step0.of_core rfl : Step0 s { s with close := true }).trans (cancelWaiter_step0 _)

theorem connectionLost_step0 (s : St) : Step0 s (connectionLost s) := by
  unfold connectionLost
  split
  · exact Step0.refl s
  · simp only []
    have h := forceClose_step0 s
    split
    · exact h.trans (Step0.of_core (by simp; rfl))
    · exact h.trans (Step0.of_core (by simp; rfl))

theorem processKeepalive_step0 (s : St) : Step0 s (processKeepalive s) := by
  unfold processKeepalive
  simp only []
  split
  · exact Step0.of_core rfl
  · split
    · exact Step0.of_core rfl
    · split
      · exact (Step0.of_core rfl : Step0 s { s with kaTimer := none }).trans (forceClose_step0 _)
      · exact Step0.of_core rfl

/-- the waiter is not armed by the step from `s` to `s'` -/
def NPres (s s' : St) : Prop := s'.spc = s.spc ∧ (s'.waiter = .pending → s.waiter = .pending)

theorem NPres.refl (s : St) : NPres s s := ⟨rfl, fun h => h⟩
theorem NPres.trans {a b c : St} (h1 : NPres a b) (h2 : NPres b c) : NPres a c :=
  ⟨h2.1.trans h1.1, fun h => h1.2 (h2.2 h)⟩
theorem Step0.np {s s' : St} (h : Step0 s s') : NPres s s' := ⟨h.2.1, fun hp => (h.2.2 hp).1⟩
theorem NPres.of_core {s s' : St} (h : core s' = core s) : NPres s s' := (Step0.of_core h).np
theorem NPres.of_waiter {s s' : St} (h : s'.waiter = s.waiter) (h2 : s'.spc = s.spc := by rfl) : NPres s s' :=
  ⟨h2, fun hp => by rw [← h]; exact hp⟩
theorem NPres.of_core_waiter {s s' : St} (h : s'.waiter = s.waiter) (h2 : s'.spc = s.spc := by rfl) : NPres s s' :=
  NPres.of_waiter h h2

theorem enqueueOut_np (s : St) (o) : NPres s (enqueueOut s o) := by
  have := w3_enqueueOut s o
  simp only [w3, Prod.mk.injEq] at this
  exact ⟨this.2.2, fun h => by rw [← this.1]; exact h⟩

theorem reparseTail_np (s : St) : NPres s (reparseTail s) := by
  unfold reparseTail
  split
  · simp only []
    split
    · generalize hr : parserCall { s with upgraded := false } = r
      have hc : core r.2 = core s := by rw [← hr]; exact core_parserCall _
      have h1 : NPres s (enqueueOut (applyOlds r.2 r.1.olds) r.1) :=
        (NPres.of_core (by simp [hc])).trans (enqueueOut_np _ _)
      split
      · exact h1.trans (NPres.of_core (by simp; rfl))
      · split
        · exact (h1.trans (NPres.of_core rfl)).trans (resumeMsgQ_step0 _).np
        · exact h1.trans (NPres.of_core rfl)
    · exact NPres.of_core rfl
  · exact NPres.refl s

theorem finishH_np (s : St) (r) : NPres s (finishH s r) := ⟨rfl, fun h => h⟩

theorem finishFresh_np (s : St) (c st ka) : NPres s (finishFresh s c st ka) := by
  unfold finishFresh
  simp only []
  have h1 : NPres s (reparseTail { s with currentRequest := none }) :=
    (NPres.of_core rfl : NPres s { s with currentRequest := none }).trans (reparseTail_np _)
  split
  · exact (h1.trans (NPres.of_core (by simp))).trans (finishH_np _ _)
  · exact (h1.trans (NPres.of_core (by simp))).trans (finishH_np _ _)

theorem finishDone_np (s : St) (ka) : NPres s (finishDone s ka) := by
  unfold finishDone
  exact ((NPres.of_core rfl : NPres s { s with currentRequest := none }).trans (reparseTail_np _)).trans (finishH_np _ _)

theorem handleError_np (s : St) (c st) : NPres s (handleError s c st) := by
  unfold handleError
  split
  · exact finishH_np _ _
  · exact finishFresh_np _ _ _ _

theorem runProg_np : ∀ (fuel : Nat) (s : St) (prog : Prog), NPres s (runProg fuel s prog)
  | 0, s, _ => by simp only [runProg]; exact finishH_np _ _
  | fuel + 1, s, prog => by
    have ih := runProg_np fuel
    simp only [runProg]
    split
    · exact finishH_np _ _
    · next c hc =>
      split
      · exact finishFresh_np _ _ _ _
      · exact NPres.of_waiter rfl
      · -- read
        try simp only []
        split
        · exact ih _ _
        · split
          · exact handleError_np _ _ _
          · split
            · exact (drainChunks_step0 _ _ _).np.trans (ih _ _)
            · split
              · exact ih _ _
              · split
                · exact handleError_np _ _ _
                · exact NPres.of_waiter rfl
      · -- prepare
        split
        · exact ih _ _
        · split
          · exact (NPres.of_core (by simp) : NPres s (updCur s _)).trans (finishH_np _ _)
          · refine NPres.trans ?_ (ih _ _)
            exact NPres.of_core (by split <;> simp)
      · -- write
        split
        · exact ih _ _
        · split
          · exact handleError_np _ _ _
          · split
            · exact finishH_np _ _
            · exact (NPres.of_core (by simp) : NPres s (emit s _)).trans (ih _ _)
      · -- fin
        split
        · split
          · split
            · exact finishH_np _ _
            · exact (NPres.of_core (by simp) : NPres s (updCur (emit s _) _)).trans (finishDone_np _ _)
          · exact finishFresh_np _ _ _ _
        · exact finishFresh_np _ _ _ _
        · exact finishFresh_np _ _ _ _
        · exact (NPres.of_core rfl : NPres s { s with currentRequest := none }).trans (handleError_np _ _ _)
        · exact (NPres.of_core rfl : NPres s { s with currentRequest := none }).trans (handleError_np _ _ _)
        · exact finishH_np _ _
        · exact finishFresh_np _ _ _ _

theorem handlerStart_np (fuel : Nat) (s : St) (m : QMsg) : NPres s (handlerStart fuel s m) := by
  unfold handlerStart
  simp only []
  have h0 : NPres s { s with cur := some { idx := m.idx, err := m.err, info := m.info }, currentRequest := some m.idx, hpc := .idle } :=
    NPres.of_core_waiter rfl
  split
  · exact h0.trans (finishFresh_np _ _ _ _)
  · split
    · split
      · split
        · exact (h0.trans (NPres.of_core (by simp))).trans (finishH_np _ _)
        · refine (h0.trans ?_).trans (runProg_np _ _ _)
          exact NPres.of_waiter rfl
      · split
        · exact h0.trans (finishH_np _ _)
        · exact h0.trans (finishFresh_np _ _ _ _)
    · refine (h0.trans ?_).trans (runProg_np _ _ _)
      exact NPres.of_waiter rfl

theorem consumeSlot_waiter (s : St) : (consumeSlot s).waiter = s.waiter := by
  unfold consumeSlot; split <;> rfl
theorem markErr_waiter (s : St) (m) : (markErr s m).waiter = s.waiter := by
  unfold markErr; split <;> rfl
theorem consumeSlot_spc (s : St) : (consumeSlot s).spc = s.spc := by
  unfold consumeSlot; split <;> rfl
theorem markErr_spc (s : St) (m) : (markErr s m).spc = s.spc := by
  unfold markErr; split <;> rfl
theorem lowWater_np (s : St) : NPres s (lowWater s) := by
  unfold lowWater; split
  · exact (resumeMsgQ_step0 s).np
  · exact NPres.refl s

theorem popPrep_np (s : St) (m : QMsg) (rest) : NPres s (popPrep s m rest) := by
  unfold popPrep
  refine NPres.trans ?_ (lowWater_np _)
  refine NPres.of_waiter ?_ ?_
  · rw [markErr_waiter, consumeSlot_waiter]
  · rw [markErr_spc, consumeSlot_spc]

/-! ## the lost-wake-up invariant -/

/-- whenever `start()` is parked on a *pending* waiter the queue is empty (and both coroutines
are where they should be) -/
def WInv (s : St) : Prop :=
  (s.waiter = .pending → s.messages = [] ∧ s.spc = .waitMsg ∧ s.hpc = .idle) ∧
  (∀ e, s.spc = .linger e → s.hpc = .idle)

theorem WInv.of_np {s : St} (h : s.waiter ≠ .pending) (h2 : ∀ e, s.spc = .linger e → s.hpc = .idle := by intro e he; simp_all) :
    WInv s := ⟨fun hp => absurd hp h, h2⟩

def needIdle : SCont → Bool
  | .pop => false
  | .afterHandler _ => false
  | _ => true

theorem Step0.keep {s s' : St} (h : Step0 s s') (hn : s.waiter ≠ .pending) (hi : s.hpc = .idle) :
    s'.waiter ≠ .pending ∧ s'.hpc = .idle :=
  ⟨fun hp => hn (h.2.2 hp).1, h.1.trans hi⟩

theorem startRun_winv : ∀ (fuel : Nat) (s : St) (k : SCont),
    s.waiter ≠ .pending → (needIdle k = true → s.hpc = .idle) → WInv (startRun fuel s k)
  | 0, s, k, hn, _ => by
    simp only [startRun]; exact WInv.of_np hn
  | fuel + 1, s, k, hn, hi => by
    have ih := startRun_winv fuel
    cases k with
    | top =>
      have hidle := hi rfl
      simp only [startRun]
      split
      · exact ih _ _ hn (fun _ => hidle)
      · split
        · exact ⟨fun _ => ⟨by assumption, rfl, hidle⟩, fun e he => by simp at he⟩
        · exact ih _ _ hn (fun h => by simp [needIdle] at h)
    | pop =>
      simp only [startRun]
      split
      · exact WInv.of_np hn
      · next m rest hm =>
        try simp only []
        have hn3 : (popPrep s m rest).waiter ≠ .pending := fun hp => hn ((popPrep_np s m rest).2 hp)
        split
        · exact WInv.of_np hn3
        · have hn4 : (handlerStart fuel (popPrep s m rest) m).waiter ≠ .pending :=
            fun hp => hn3 ((handlerStart_np fuel _ m).2 hp)
          split
          · exact ih _ _ hn4 (fun h => by simp [needIdle] at h)
          · exact WInv.of_np hn4
    | afterHandler r =>
      simp only [startRun]
      cases r with
      | connErr => exact ih _ _ hn (fun _ => rfl)
      | cancelled =>
        try simp only []
        exact WInv.of_np (fun hp => hn ((forceClose_step0 { s with hpc := .idle }).np.2 hp))
      | crashed =>
        try simp only []
        have := (forceClose_step0 { s with hpc := .idle }).keep hn rfl
        exact ih _ _ this.1 (fun _ => this.2)
      | resp ka reset =>
        try simp only []
        split
        · exact ih _ _ hn (fun _ => rfl)
        · split
          · exact ih _ _ hn (fun _ => rfl)
          · split
            · split
              · exact ih _ _ hn (fun _ => rfl)
              · exact ih _ _ hn (fun _ => rfl)
            · exact ih _ _ hn (fun _ => rfl)
    | linger endT =>
      have hidle := hi rfl
      simp only [startRun]
      split
      · exact ih _ _ hn (fun _ => hidle)
      · next c hc =>
        try simp only []
        split
        · exact ih _ _ hn (fun _ => hidle)
        · split
          · split
            · have := (forceClose_step0 (cancelLinger s)).keep hn hidle
              exact ih _ _ this.1 (fun _ => this.2)
            · split
              · have := (drainChunks_step0 (cancelLinger s) c.idx (getP s c.idx).chunks).keep hn hidle
                exact ih _ _ this.1 (fun _ => this.2)
              · split
                · have := (forceClose_step0 (cancelLinger s)).keep hn hidle
                  exact ih _ _ this.1 (fun _ => this.2)
                · refine WInv.of_np ?_ (fun _ _ => ?_)
                  · split <;> exact hn
                  · split <;> exact hidle
          · exact ih _ _ hn (fun _ => hidle)
    | afterLinger =>
      have hidle := hi rfl
      simp only [startRun]
      split
      · exact ih _ _ hn (fun _ => hidle)
      · next c hc =>
        try simp only []
        split
        · have h1 := (closeConn_step0 s).keep hn hidle
          have h2 := (Step0.of_core (core_payloadEvent (closeConn s) c.idx 0 false true)).keep h1.1 h1.2
          exact ih _ _ h2.1 (fun _ => h2.2)
        · have h2 := (Step0.of_core (core_payloadEvent s c.idx 0 false true)).keep hn hidle
          exact ih _ _ h2.1 (fun _ => h2.2)
    | decide =>
      have hidle := hi rfl
      simp only [startRun]
      split
      · split
        · exact ih _ _ hn (fun _ => hidle)
        · exact ih _ _ hn (fun _ => hidle)
      · exact ih _ _ hn (fun _ => hidle)
    | epilogue =>
      simp only [startRun]
      split
      · split
        · have := core_transportClose { s with cur := none, spc := .done }
          simp only [core, Core.mk.injEq] at this
          refine WInv.of_np (by rw [this.1]; exact hn) (fun e he => ?_)
          rw [this.2.2.1] at he; simp at he
        · exact WInv.of_np hn
      · exact WInv.of_np hn

theorem WInv.step0 {s s' : St} (h : WInv s) (h0 : Step0 s s') : WInv s' := by
  refine ⟨fun hp => ?_, fun e he => ?_⟩
  · obtain ⟨hp', hm⟩ := h0.2.2 hp
    obtain ⟨a, b, c⟩ := h.1 hp'
    exact ⟨hm.trans a, h0.2.1.trans b, h0.1.trans c⟩
  · rw [h0.1]; exact h.2 e (by rw [← h0.2.1]; exact he)

theorem WInv.ready {s : St} (h : WInv s) (r) : WInv { s with ready := r } := h

theorem runCb_winv (s : St) (c : Cb) (h : WInv s) : WInv (runCb s c) := by
  cases c with
  | startWake =>
    simp only [runCb]
    split
    · -- waitMsg
      split
      · -- resolved: with or without the generated `recheckForceCloseAfterWait`
        first
          | exact startRun_winv _ _ _ (by simp) (fun hh => by simp [needIdle] at hh)
          | (split
             · exact WInv.of_np (by simp)
             · exact startRun_winv _ _ _ (by simp) (fun hh => by simp [needIdle] at hh))
      · exact WInv.of_np (by simp)
      · exact h
    · -- awaitHandler
      next hs =>
      split
      · refine startRun_winv _ _ _ (fun hp => ?_) (fun hh => by simp [needIdle] at hh)
        have := (h.1 hp).2.1
        rw [hs] at this; cases this
      · exact h
    · -- linger
      next endT hs =>
      split
      · next c hc =>
        have hidle := h.2 endT hs
        have hn : s.waiter ≠ .pending := fun hp => by
          have := (h.1 hp).2.1
          rw [hs] at this; cases this
        try simp only []
        split
        · have := (forceClose_step0 (cancelLinger (setP s c.idx { getP s c.idx with waiter := .none }))).keep hn hidle
          exact startRun_winv _ _ _ this.1 (fun _ => this.2)
        · split
          · have := (drainChunks_step0 (cancelLinger (setP s c.idx { getP s c.idx with waiter := .none })) c.idx (getP s c.idx).chunks).keep
              hn hidle
            exact startRun_winv _ _ _ this.1 (fun _ => this.2)
          · exact startRun_winv _ _ _ hn (fun _ => hidle)
      · exact h
    · exact h
  | handlerWake =>
    simp only [runCb]
    -- the handler task only runs when it is parked, i.e. not idle: then the waiter is not pending
    split
    · exact h
    · next s' hs' =>
      have key : s'.waiter ≠ .pending ∧ s'.spc = s.spc ∧ s.hpc ≠ .idle := by
        split at hs'
        · next rest hh =>
          split at hs'
          · injection hs' with hs'
            subst hs'
            have hn : s.waiter ≠ .pending := fun hp => by
              have := (h.1 hp).2.2; rw [hh] at this; cases this
            have np := runProg_np (fuelOf s) { s with sleepDone := false } rest
            exact ⟨fun hp => hn (np.2 hp), np.1, by rw [hh]; simp⟩
          · cases hs'
        · next rest hh =>
          split at hs'
          · next c hc =>
            injection hs' with hs'
            subst hs'
            have hn : s.waiter ≠ .pending := fun hp => by
              have := (h.1 hp).2.2; rw [hh] at this; cases this
            try simp only []
            split
            · have d := (drainChunks_step0 (setP s c.idx { getP s c.idx with waiter := .none }) c.idx (getP s c.idx).chunks).np
              have np := runProg_np (fuelOf (drainChunks (setP s c.idx { getP s c.idx with waiter := .none }) c.idx (getP s c.idx).chunks))
                (drainChunks (setP s c.idx { getP s c.idx with waiter := .none }) c.idx (getP s c.idx).chunks) (resumeProg (getP s c.idx) rest)
              exact ⟨fun hp => hn (d.2 (np.2 hp)), np.1.trans d.1, by rw [hh]; simp⟩
            · have np := runProg_np (fuelOf (setP s c.idx { getP s c.idx with waiter := .none }))
                (setP s c.idx { getP s c.idx with waiter := .none }) (resumeProg (getP s c.idx) rest)
              exact ⟨fun hp => hn (np.2 hp), np.1, by rw [hh]; simp⟩
          · cases hs'
        · cases hs'
      have hl : ∀ e, s.spc ≠ .linger e := fun e he => key.2.2 (h.2 e he)
      split
      · split
        · exact WInv.of_np key.1 (fun e he => by simp only [pushCb_spc] at he; rw [key.2.1] at he; exact absurd he (hl e))
        · exact WInv.of_np key.1 (fun e he => by rw [key.2.1] at he; exact absurd he (hl e))
      · exact WInv.of_np key.1 (fun e he => by rw [key.2.1] at he; exact absurd he (hl e))
  | connLost =>
    simp only [runCb]
    exact (WInv.step0 (s := s) h (Step0.of_core rfl)).step0 (connectionLost_step0 _)
  | kaFire => exact h.step0 (processKeepalive_step0 s)
  | sleepFire => exact h
  | lingerFire =>
    simp only [runCb]
    split
    · split
      · try simp only []
        split
        · exact h
        · exact h
      · exact h
    · exact h

theorem moveDue_core (s : St) : core (moveDue s) = core s := by
  unfold moveDue
  simp only []
  generalize (List.foldl (fun acc t => insertT t acc) [] (dueTimers s)) = due
  induction due generalizing s with
  | nil => rfl
  | cons t ts ih =>
    simp only [List.foldl_cons]
    rw [ih]
    split <;> rfl

theorem step_winv (s : St) (l : Label) (h : WInv s) : WInv (step s l) := by
  cases l with
  | data n =>
    simp only [step]
    split
    · exact h
    · exact h.step0 (dataReceived_step0 s n)
  | lost =>
    simp only [step]
    split
    · exact h
    · exact (WInv.step0 (s := s) h (Step0.of_core rfl)).step0 (connectionLost_step0 _)
  | tick =>
    simp only [step]
    split
    · exact h
    · exact runCb_winv _ _ (h.ready _)
  | fire limit =>
    simp only [step]
    split
    · exact h
    · split
      · split
        · exact (WInv.step0 (s := s) h (Step0.of_core rfl)).step0 (Step0.of_core (moveDue_core _))
        · exact h
      · exact h

theorem init_winv (cfg : Cfg) (progs : List Prog) (oracle : List POut) : WInv (init cfg progs oracle) := by
  unfold init
  exact startRun_winv _ _ _ (by simp) (fun _ => rfl)

theorem run_winv (s : St) (ls : List Label) (h : WInv s) : WInv (run s ls) := by
  induction ls generalizing s with
  | nil => exact h
  | cons l ls ih => exact ih _ (step_winv s l h)

/-! ## the pipelining cap: parsed-but-unhandled requests never exceed the parser's cap -/

/-- number of queued entries that are requests (not `_ErrInfo`) -/
def nreq (l : List QMsg) : Nat := (l.filter (fun m => !m.err)).length

/-- as long as the parser kept its side of the contract: `_msg_in_flight` is within the cap and, until
an error entry has been popped (after which the connection closes), it covers every queued request -/
def QInv (s : St) : Prop :=
  s.capViolated = false →
    s.inFlight ≤ Gen.C05.parserMaxMsgQueueSize ∧ (s.errPopped = false → nreq s.messages ≤ s.inFlight)

/-- the fields `QInv` reads -/
def q4 (s : St) : Bool × Nat × Bool × List QMsg := (s.capViolated, s.inFlight, s.errPopped, s.messages)

theorem QInv.of_q4 {s s' : St} (h : q4 s' = q4 s) (hq : QInv s) : QInv s' := by
  simp only [q4, Prod.mk.injEq] at h
  unfold QInv; rw [h.1, h.2.1, h.2.2.1, h.2.2.2]; exact hq

@[simp] theorem q4_setP (s : St) (i p) : q4 (setP s i p) = q4 s := rfl
@[simp] theorem q4_pushCb (s : St) (c) : q4 (pushCb s c) = q4 s := rfl
@[simp] theorem q4_wakeP (s : St) (i b) : q4 (wakeP s i b) = q4 s := by unfold wakeP; frame
@[simp] theorem q4_protoResumeNoParse (s : St) : q4 (protoResumeNoParse s) = q4 s := by
  unfold protoResumeNoParse; frame
@[simp] theorem q4_payloadEvent (s : St) (i c e x) : q4 (payloadEvent s i c e x) = q4 s := by
  unfold payloadEvent; frame
@[simp] theorem q4_pauseMsgQ (s : St) : q4 (pauseMsgQ s) = q4 s := by unfold pauseMsgQ; frame
@[simp] theorem q4_applyOlds (s : St) (l) : q4 (applyOlds s l) = q4 s := by
  induction l generalizing s with
  | nil => rfl
  | cons e es ih => simp [applyOlds, ih]
@[simp] theorem q4_notifyWaiter (s : St) (g) : q4 (notifyWaiter s g) = q4 s := by unfold notifyWaiter; frame
@[simp] theorem q4_checkPause (s : St) : q4 (checkPause s) = q4 s := by unfold checkPause; frame
@[simp] theorem q4_setUpgraded (s : St) (o) : q4 (setUpgraded s o) = q4 s := by unfold setUpgraded; frame
@[simp] theorem q4_bufferTail (s : St) (n) : q4 (bufferTail s n) = q4 s := by unfold bufferTail; frame

theorem nreq_append (a b : List QMsg) : nreq (a ++ b) = nreq a + nreq b := by simp [nreq]

theorem pushMsg_q (s : St) (m : MsgInfo) :
    (pushMsg s m).capViolated = s.capViolated ∧ (pushMsg s m).errPopped = s.errPopped ∧
    (pushMsg s m).inFlight = s.inFlight + 1 ∧ nreq (pushMsg s m).messages = nreq s.messages + 1 := by
  refine ⟨rfl, rfl, rfl, ?_⟩
  show nreq (s.messages ++ _) = _
  rw [nreq_append]; simp [nreq]

theorem appendMsgs_q (s : St) (ms : List MsgInfo) :
    (appendMsgs s ms).capViolated = s.capViolated ∧ (appendMsgs s ms).errPopped = s.errPopped ∧
    (appendMsgs s ms).inFlight = s.inFlight + ms.length ∧
    nreq (appendMsgs s ms).messages = nreq s.messages + ms.length := by
  induction ms generalizing s with
  | nil => exact ⟨rfl, rfl, rfl, rfl⟩
  | cons m ms ih =>
    simp only [appendMsgs]
    obtain ⟨p1, p2, p3, p4⟩ := pushMsg_q s m
    split
    · obtain ⟨a, b, c, d⟩ := ih (protoResumeNoParse (pushMsg s m))
      have h := q4_protoResumeNoParse (pushMsg s m)
      simp only [q4, Prod.mk.injEq] at h
      refine ⟨a.trans (h.1.trans p1), b.trans (h.2.2.1.trans p2), ?_, ?_⟩
      · rw [c, h.2.1, p3]; simp only [List.length_cons]; omega
      · rw [d, h.2.2.2, p4]; simp only [List.length_cons]; omega
    · obtain ⟨a, b, c, d⟩ := ih (pushMsg s m)
      refine ⟨a.trans p1, b.trans p2, ?_, ?_⟩
      · rw [c, p3]; simp only [List.length_cons]; omega
      · rw [d, p4]; simp only [List.length_cons]; omega

theorem appendErr_q (s : St) :
    (appendErr s).capViolated = s.capViolated ∧ (appendErr s).errPopped = s.errPopped ∧
    (appendErr s).inFlight = s.inFlight ∧ nreq (appendErr s).messages = nreq s.messages := by
  refine ⟨rfl, rfl, rfl, ?_⟩
  show nreq (s.messages ++ _) = _
  rw [nreq_append]; simp [nreq]

theorem consumeSlot_q (s : St) :
    (consumeSlot s).capViolated = s.capViolated ∧ (consumeSlot s).errPopped = s.errPopped ∧
    (consumeSlot s).messages = s.messages ∧
    (consumeSlot s).inFlight ≤ s.inFlight ∧ s.inFlight - 1 ≤ (consumeSlot s).inFlight := by
  unfold consumeSlot
  split
  · exact ⟨rfl, rfl, rfl, Nat.sub_le _ _, Nat.le_refl _⟩
  · exact ⟨rfl, rfl, rfl, Nat.le_refl _, Nat.sub_le _ _⟩

theorem markErr_q (s : St) (m : QMsg) :
    (markErr s m).capViolated = s.capViolated ∧ (markErr s m).inFlight = s.inFlight ∧
    (markErr s m).messages = s.messages ∧ ((markErr s m).errPopped = false → s.errPopped = false ∧ m.err = false) := by
  unfold markErr
  split
  · exact ⟨rfl, rfl, rfl, fun h => by simp at h⟩
  · next h => exact ⟨rfl, rfl, rfl, fun h' => ⟨h', by simpa using h⟩⟩

/-- queueing one parser output keeps the cap, provided the output respects the parser contract -/
theorem enqueueOut_qinv (s : St) (o : POut) (hq : QInv s) (hc : o.respectsCap s.inFlight = true) :
    QInv (enqueueOut s o) := by
  unfold enqueueOut
  unfold POut.respectsCap POut.slots at hc
  split
  · next hr =>
    intro hv
    have := hq hv
    simp only [hr, if_true, Bool.or_eq_true, beq_iff_eq, decide_eq_true_eq] at hc
    obtain ⟨_, _, _, e4⟩ := appendErr_q s
    refine ⟨?_, fun he => ?_⟩
    · show s.inFlight + o.lost ≤ _
      rcases hc with h | h
      · rw [h]; exact this.1
      · exact h
    · show nreq (appendErr s).messages ≤ s.inFlight + o.lost
      rw [e4]
      have := this.2 he
      omega
  · next hr =>
    obtain ⟨a, b, c, d⟩ := appendMsgs_q s o.msgs
    intro hv
    rw [a] at hv
    have := hq hv
    simp only [hr, Bool.or_eq_true, beq_iff_eq, decide_eq_true_eq] at hc
    refine ⟨?_, fun he => ?_⟩
    · rw [c]
      rcases hc with h | h
      · simp at h; rw [h]; exact this.1
      · simpa using h
    · rw [b] at he
      rw [d, c]
      have := this.2 he
      omega

theorem parserCall_q (s : St) :
    (parserCall s).2.inFlight = s.inFlight ∧ (parserCall s).2.errPopped = s.errPopped ∧
    (parserCall s).2.messages = s.messages ∧
    ((parserCall s).2.capViolated = false →
      s.capViolated = false ∧ (parserCall s).1.respectsCap s.inFlight = true) := by
  unfold parserCall
  split
  · refine ⟨rfl, rfl, rfl, fun h => ⟨h, ?_⟩⟩
    simp [POut.respectsCap, POut.slots]
  · refine ⟨rfl, rfl, rfl, fun h => ?_⟩
    simp only [Bool.or_eq_false_iff, Bool.not_eq_false'] at h
    exact h

/-- one parser call followed by queueing its output keeps the cap invariant -/
theorem parse_enqueue_qinv (s : St) (hq : QInv s) :
    QInv (enqueueOut (applyOlds (parserCall s).2 (parserCall s).1.olds) (parserCall s).1) := by
  obtain ⟨a, b, c, d⟩ := parserCall_q s
  generalize parserCall s = r at a b c d
  intro hv
  have hv' : r.2.capViolated = false := by
    unfold enqueueOut at hv
    split at hv
    · have := q4_applyOlds r.2 r.1.olds
      simp only [q4, Prod.mk.injEq] at this
      rw [← this.1]; exact hv
    · have h1 := (appendMsgs_q (applyOlds r.2 r.1.olds) r.1.msgs).1
      have := q4_applyOlds r.2 r.1.olds
      simp only [q4, Prod.mk.injEq] at this
      rw [← this.1, ← h1]; exact hv
  obtain ⟨hs, hcap⟩ := d hv'
  have hq2 : QInv (applyOlds r.2 r.1.olds) := by
    have h4 := q4_applyOlds r.2 r.1.olds
    simp only [q4, Prod.mk.injEq] at h4
    intro _
    rw [h4.2.1, h4.2.2.1, h4.2.2.2, a, b, c]
    exact hq hs
  have hcap' : r.1.respectsCap (applyOlds r.2 r.1.olds).inFlight = true := by
    have h4 := q4_applyOlds r.2 r.1.olds
    simp only [q4, Prod.mk.injEq] at h4
    rw [h4.2.1, a]; exact hcap
  exact enqueueOut_qinv _ _ hq2 hcap' hv

theorem dataReceived_qinv (s : St) (n : Nat) (hq : QInv s) : QInv (dataReceived s n) := by
  unfold dataReceived
  split
  · exact hq
  · split
    · simp only []
      exact QInv.of_q4 (by simp) (parse_enqueue_qinv s hq)
    · split
      · exact QInv.of_q4 (by simp) hq
      · exact hq

theorem resumeMsgQ_qinv (s : St) (hq : QInv s) : QInv (resumeMsgQ s) := by
  unfold resumeMsgQ
  split
  · exact hq
  · simp only []
    split
    · have h := dataReceived_qinv s 0 hq
      split
      · exact h
      · split <;> exact QInv.of_q4 rfl h
    · split
      · exact hq
      · split <;> exact QInv.of_q4 rfl hq

/-- popping a request frees exactly one parser slot: the cap invariant survives
`popleft()` + `message_consumed()` + the low-water resume -/
theorem popPrep_qinv (s : St) (m : QMsg) (rest : List QMsg) (hm : s.messages = m :: rest) (hq : QInv s) :
    QInv (popPrep s m rest) := by
  unfold popPrep lowWater
  have h1 : QInv (markErr (consumeSlot { s with messages := rest }) m) := by
    obtain ⟨c1, c2, c3, c4, c5⟩ := consumeSlot_q { s with messages := rest }
    obtain ⟨m1, m2, m3, m4⟩ := markErr_q (consumeSlot { s with messages := rest }) m
    intro hv
    rw [m1, c1] at hv
    obtain ⟨hle, hn⟩ := hq hv
    rw [m2, m3, c3]
    refine ⟨Nat.le_trans c4 hle, fun he => ?_⟩
    obtain ⟨e1, e2⟩ := m4 he
    rw [c2] at e1
    have := hn e1
    rw [hm] at this
    simp only [nreq, List.filter_cons, e2, Bool.not_false, if_true, List.length_cons] at this
    show nreq rest ≤ _
    simp only [nreq]
    have c5' : s.inFlight - 1 ≤ (consumeSlot { s with messages := rest }).inFlight := c5
    omega
  split
  · exact resumeMsgQ_qinv _ h1
  · exact h1

/-! ### threading the cap invariant through the whole step function -/

@[simp] theorem q4_transportClose (s : St) : q4 (transportClose s) = q4 s := by unfold transportClose; frame
@[simp] theorem q4_cancelLinger (s : St) : q4 (cancelLinger s) = q4 s := rfl
@[simp] theorem q4_cancelKa (s : St) : q4 (cancelKa s) = q4 s := rfl
@[simp] theorem q4_updCur (s : St) (f) : q4 (updCur s f) = q4 s := rfl
@[simp] theorem q4_emit (s : St) (e) : q4 (emit s e) = q4 s := rfl
@[simp] theorem q4_finishH (s : St) (r) : q4 (finishH s r) = q4 s := rfl
@[simp] theorem q4_cancelWaiter (s : St) : q4 (cancelWaiter s) = q4 s := by unfold cancelWaiter; frame

theorem q4_forceClose (s : St) : q4 (forceClose s) = q4 s := by
  unfold forceClose
  simp only []
  split
  · exact ((rfl : q4 { transportClose _ with tPresent := false } = q4 (transportClose _)).trans (q4_transportClose _)).trans
      ((q4_cancelWaiter _).trans rfl)
  · exact (q4_cancelWaiter _).trans rfl

theorem q4_closeConn (s : St) : q4 (closeConn s) = q4 s := by
  unfold closeConn; exact (q4_cancelWaiter _).trans rfl

theorem q4_connectionLost (s : St) : q4 (connectionLost s) = q4 s := by
  unfold connectionLost
  split
  · rfl
  · simp only []
    split
    · exact (q4_payloadEvent _ _ _ _ _).trans ((rfl : q4 (cancelKa { forceClose s with tPresent := false, managerPresent := false, parserPresent := false }) = q4 (forceClose s)).trans (q4_forceClose s))
    · exact (rfl : q4 (cancelKa { forceClose s with tPresent := false, managerPresent := false, parserPresent := false }) = q4 (forceClose s)).trans (q4_forceClose s)

theorem q4_processKeepalive (s : St) : q4 (processKeepalive s) = q4 s := by
  unfold processKeepalive
  simp only []
  split
  · rfl
  · split
    · rfl
    · split
      · exact (q4_forceClose _).trans rfl
      · rfl

theorem protoResume_qinv (s : St) (hq : QInv s) : QInv (protoResume s) := by
  unfold protoResume
  simp only []
  split
  · have h := dataReceived_qinv { s with readingPaused := false } 0 (QInv.of_q4 rfl hq)
    split
    · exact QInv.of_q4 rfl h
    · exact h
  · split <;> exact QInv.of_q4 rfl hq

theorem drainChunks_qinv (s : St) (i n : Nat) (hq : QInv s) : QInv (drainChunks s i n) := by
  induction n generalizing s with
  | zero => exact hq
  | succ n ih =>
    simp only [drainChunks]
    exact ih _ (protoResume_qinv _ (QInv.of_q4 (by simp) hq))

theorem reparseTail_qinv (s : St) (hq : QInv s) : QInv (reparseTail s) := by
  unfold reparseTail
  split
  · simp only []
    split
    · have h1 := parse_enqueue_qinv { s with upgraded := false } (QInv.of_q4 rfl hq)
      split
      · exact QInv.of_q4 (by simp; rfl) h1
      · split
        · exact resumeMsgQ_qinv _ (QInv.of_q4 rfl h1)
        · exact QInv.of_q4 rfl h1
    · exact QInv.of_q4 rfl hq
  · exact hq

theorem finishFresh_qinv (s : St) (c st ka) (hq : QInv s) : QInv (finishFresh s c st ka) := by
  unfold finishFresh
  simp only []
  have h1 : QInv (reparseTail { s with currentRequest := none }) := reparseTail_qinv _ (QInv.of_q4 rfl hq)
  split <;> exact QInv.of_q4 (by simp) h1

theorem finishDone_qinv (s : St) (ka) (hq : QInv s) : QInv (finishDone s ka) := by
  unfold finishDone
  have h1 : QInv (reparseTail { s with currentRequest := none }) := reparseTail_qinv _ (QInv.of_q4 rfl hq)
  exact QInv.of_q4 (s := reparseTail { s with currentRequest := none }) (by simp) h1

theorem handleError_qinv (s : St) (c st) (hq : QInv s) : QInv (handleError s c st) := by
  unfold handleError
  split
  · exact QInv.of_q4 rfl hq
  · exact finishFresh_qinv _ _ _ _ hq

theorem runProg_qinv : ∀ (fuel : Nat) (s : St) (prog : Prog), QInv s → QInv (runProg fuel s prog)
  | 0, s, _, hq => by simp only [runProg]; exact QInv.of_q4 rfl hq
  | fuel + 1, s, prog, hq => by
    have ih := runProg_qinv fuel
    simp only [runProg]
    split
    · exact QInv.of_q4 rfl hq
    · next c hc =>
      split
      · exact finishFresh_qinv _ _ _ _ hq
      · exact QInv.of_q4 rfl hq
      · -- read
        try simp only []
        split
        · exact ih _ _ hq
        · split
          · exact handleError_qinv _ _ _ hq
          · split
            · exact ih _ _ (drainChunks_qinv _ _ _ hq)
            · split
              · exact ih _ _ hq
              · split
                · exact handleError_qinv _ _ _ hq
                · exact QInv.of_q4 rfl hq
      · -- prepare
        split
        · exact ih _ _ hq
        · split
          · exact QInv.of_q4 (by simp) hq
          · refine ih _ _ (QInv.of_q4 ?_ hq)
            split <;> simp
      · -- write
        split
        · exact ih _ _ hq
        · split
          · exact handleError_qinv _ _ _ hq
          · split
            · exact QInv.of_q4 rfl hq
            · exact ih _ _ (QInv.of_q4 (by simp) hq)
      · -- fin
        split
        · split
          · split
            · exact QInv.of_q4 rfl hq
            · exact finishDone_qinv _ _ (QInv.of_q4 (by simp) hq)
          · exact finishFresh_qinv _ _ _ _ hq
        · exact finishFresh_qinv _ _ _ _ hq
        · exact finishFresh_qinv _ _ _ _ hq
        · exact handleError_qinv _ _ _ (QInv.of_q4 rfl hq)
        · exact handleError_qinv _ _ _ (QInv.of_q4 rfl hq)
        · exact QInv.of_q4 rfl hq
        · exact finishFresh_qinv _ _ _ _ hq

theorem handlerStart_qinv (fuel : Nat) (s : St) (m : QMsg) (hq : QInv s) : QInv (handlerStart fuel s m) := by
  unfold handlerStart
  simp only []
  have h0 : QInv { s with cur := some { idx := m.idx, err := m.err, info := m.info }, currentRequest := some m.idx, hpc := .idle } :=
    QInv.of_q4 rfl hq
  split
  · exact finishFresh_qinv _ _ _ _ h0
  · split
    · split
      · split
        · exact QInv.of_q4 (by simp) h0
        · exact runProg_qinv _ _ _ (QInv.of_q4 rfl h0)
      · split
        · exact QInv.of_q4 rfl h0
        · exact finishFresh_qinv _ _ _ _ h0
    · exact runProg_qinv _ _ _ (QInv.of_q4 rfl h0)

theorem startRun_qinv : ∀ (fuel : Nat) (s : St) (k : SCont), QInv s → QInv (startRun fuel s k)
  | 0, s, k, hq => by simp only [startRun]; exact QInv.of_q4 rfl hq
  | fuel + 1, s, k, hq => by
    have ih := startRun_qinv fuel
    cases k with
    | top =>
      simp only [startRun]
      split
      · exact ih _ _ hq
      · split
        · exact QInv.of_q4 rfl hq
        · exact ih _ _ hq
    | pop =>
      simp only [startRun]
      split
      · exact QInv.of_q4 rfl hq
      · next m rest hm =>
        try simp only []
        have h1 := popPrep_qinv s m rest hm hq
        split
        · exact QInv.of_q4 rfl h1
        · have h2 := handlerStart_qinv fuel _ m h1
          split
          · exact ih _ _ h2
          · exact QInv.of_q4 rfl h2
    | afterHandler r =>
      simp only [startRun]
      cases r with
      | connErr => exact ih _ _ (QInv.of_q4 rfl hq)
      | cancelled =>
        try simp only []
        exact QInv.of_q4 ((rfl : q4 { forceClose _ with spc := .done, cur := none } = q4 (forceClose _)).trans (q4_forceClose _)) (QInv.of_q4 (s := s) rfl hq)
      | crashed =>
        try simp only []
        exact ih _ _ (QInv.of_q4 (q4_forceClose _) (QInv.of_q4 (s := s) rfl hq))
      | resp ka reset =>
        try simp only []
        split
        · exact ih _ _ (QInv.of_q4 rfl hq)
        · split
          · exact ih _ _ (QInv.of_q4 rfl hq)
          · split
            · split
              · exact ih _ _ (QInv.of_q4 rfl hq)
              · exact ih _ _ (QInv.of_q4 rfl hq)
            · exact ih _ _ (QInv.of_q4 rfl hq)
    | linger endT =>
      simp only [startRun]
      split
      · exact ih _ _ hq
      · next c hc =>
        try simp only []
        split
        · exact ih _ _ (QInv.of_q4 rfl hq)
        · split
          · split
            · exact ih _ _ (QInv.of_q4 (q4_forceClose _) (QInv.of_q4 (s := s) rfl hq))
            · split
              · exact ih _ _ (drainChunks_qinv _ _ _ (QInv.of_q4 (s := s) rfl hq))
              · split
                · exact ih _ _ (QInv.of_q4 (q4_forceClose _) (QInv.of_q4 (s := s) rfl hq))
                · refine QInv.of_q4 (s := s) ?_ hq
                  split <;> rfl
          · exact ih _ _ (QInv.of_q4 rfl hq)
    | afterLinger =>
      simp only [startRun]
      split
      · exact ih _ _ hq
      · next c hc =>
        try simp only []
        split
        · exact ih _ _ (QInv.of_q4 ((q4_payloadEvent _ _ _ _ _).trans (q4_closeConn s)) hq)
        · exact ih _ _ (QInv.of_q4 (q4_payloadEvent _ _ _ _ _) hq)
    | decide =>
      simp only [startRun]
      split
      · split
        · exact ih _ _ (QInv.of_q4 rfl hq)
        · exact ih _ _ (QInv.of_q4 rfl hq)
      · exact ih _ _ (QInv.of_q4 rfl hq)
    | epilogue =>
      simp only [startRun]
      split
      · split
        · exact QInv.of_q4 ((q4_transportClose _).trans rfl) hq
        · exact QInv.of_q4 rfl hq
      · exact QInv.of_q4 rfl hq

theorem runCb_qinv (s : St) (c : Cb) (hq : QInv s) : QInv (runCb s c) := by
  cases c with
  | startWake =>
    simp only [runCb]
    split
    · split
      · first
          | exact startRun_qinv _ _ _ (QInv.of_q4 rfl hq)
          | (split
             · exact QInv.of_q4 rfl hq
             · exact startRun_qinv _ _ _ (QInv.of_q4 rfl hq))
      · exact QInv.of_q4 rfl hq
      · exact hq
    · split
      · exact startRun_qinv _ _ _ hq
      · exact hq
    · split
      · try simp only []
        split
        · exact startRun_qinv _ _ _ (QInv.of_q4 (q4_forceClose _) (QInv.of_q4 (s := s) rfl hq))
        · split
          · exact startRun_qinv _ _ _ (drainChunks_qinv _ _ _ (QInv.of_q4 (s := s) rfl hq))
          · exact startRun_qinv _ _ _ (QInv.of_q4 (s := s) rfl hq)
      · exact hq
    · exact hq
  | handlerWake =>
    simp only [runCb]
    split
    · exact hq
    · next s' hs' =>
      have key : QInv s' := by
        split at hs'
        · split at hs'
          · injection hs' with hs'
            subst hs'
            exact runProg_qinv _ _ _ (QInv.of_q4 rfl hq)
          · cases hs'
        · split at hs'
          · injection hs' with hs'
            subst hs'
            try simp only []
            split
            · exact runProg_qinv _ _ _ (drainChunks_qinv _ _ _ (QInv.of_q4 (s := s) rfl hq))
            · exact runProg_qinv _ _ _ (QInv.of_q4 (s := s) rfl hq)
          · cases hs'
        · cases hs'
      split
      · split
        · exact QInv.of_q4 rfl key
        · exact key
      · exact key
  | connLost => exact QInv.of_q4 ((q4_connectionLost _).trans rfl) hq
  | kaFire => exact QInv.of_q4 (q4_processKeepalive s) hq
  | sleepFire => exact QInv.of_q4 rfl hq
  | lingerFire =>
    simp only [runCb]
    split
    · split
      · try simp only []
        split
        · exact QInv.of_q4 rfl hq
        · exact QInv.of_q4 rfl hq
      · exact hq
    · exact hq

theorem moveDue_q4 (s : St) : q4 (moveDue s) = q4 s := by
  unfold moveDue
  simp only []
  generalize (List.foldl (fun acc t => insertT t acc) [] (dueTimers s)) = due
  induction due generalizing s with
  | nil => rfl
  | cons t ts ih =>
    simp only [List.foldl_cons]
    rw [ih]
    split <;> rfl

theorem step_qinv (s : St) (l : Label) (hq : QInv s) : QInv (step s l) := by
  cases l with
  | data n =>
    simp only [step]
    split
    · exact hq
    · exact dataReceived_qinv s n hq
  | lost =>
    simp only [step]
    split
    · exact hq
    · exact QInv.of_q4 ((q4_connectionLost _).trans rfl) hq
  | tick =>
    simp only [step]
    split
    · exact hq
    · exact runCb_qinv _ _ (QInv.of_q4 rfl hq)
  | fire limit =>
    simp only [step]
    split
    · exact hq
    · split
      · split
        · exact QInv.of_q4 ((moveDue_q4 _).trans rfl) hq
        · exact QInv.of_q4 rfl hq
      · exact QInv.of_q4 rfl hq

theorem init_qinv (cfg : Cfg) (progs : List Prog) (oracle : List POut) : QInv (init cfg progs oracle) := by
  unfold init
  exact startRun_qinv _ _ _ (by intro _; exact ⟨Nat.zero_le _, fun _ => Nat.le_refl 0⟩)

theorem run_qinv (s : St) (ls : List Label) (h : QInv s) : QInv (run s ls) := by
  induction ls generalizing s with
  | nil => exact h
  | cons l ls ih => exact ih _ (step_qinv s l h)

end Aio.C05
