import AioModel.C17
/-!
# C17 — helper lemmas (membership through the CIMultiDict / cookie operations, the
provenance invariant of one loop iteration, the same-origin streak bookkeeping)
-/
namespace Aio.C17
open Aio

/-! ## membership through the dictionary operations -/

theorem mem_popAll {n : Str} {h : List Hdr} {x : Hdr} :
    x ∈ popAll n h ↔ x ∈ h ∧ ciEq x.name n = false := by
  simp [popAll, List.mem_filter]

theorem mem_of_mem_popFirst {n : Str} {h : List Hdr} {x : Hdr} (hx : x ∈ popFirst n h) : x ∈ h := by
  induction h with
  | nil => simp [popFirst] at hx
  | cons y t ih =>
    simp only [popFirst] at hx
    split at hx
    · exact List.mem_cons_of_mem _ hx
    · rcases List.mem_cons.mp hx with h1 | h1
      · subst h1; exact List.mem_cons_self
      · exact List.mem_cons_of_mem _ (ih h1)

theorem mem_setHdr {x : Hdr} {h : List Hdr} {y : Hdr} (hy : y ∈ setHdr x h) : y = x ∨ y ∈ h := by
  induction h with
  | nil => simp [setHdr] at hy; exact Or.inl hy
  | cons z t ih =>
    simp only [setHdr] at hy
    split at hy
    · rcases List.mem_cons.mp hy with h1 | h1
      · exact Or.inl h1
      · exact Or.inr (List.mem_cons_of_mem _ (mem_popAll.mp h1).1)
    · rcases List.mem_cons.mp hy with h1 | h1
      · subst h1; exact Or.inr List.mem_cons_self
      · rcases ih h1 with h2 | h2
        · exact Or.inl h2
        · exact Or.inr (List.mem_cons_of_mem _ h2)

theorem getFirst_mem {n : Str} {h : List Hdr} {x : Hdr} (hx : getFirst n h = some x) :
    x ∈ h ∧ ciEq x.name n = true := by
  induction h with
  | nil => simp [getFirst] at hx
  | cons y t ih =>
    simp only [getFirst] at hx
    split at hx
    · next hc => injection hx with hx; subst hx; exact ⟨List.mem_cons_self, hc⟩
    · exact ⟨List.mem_cons_of_mem _ (ih hx).1, (ih hx).2⟩

theorem ciEq_trans_name {a b n : Str} (h1 : ciEq a n = true) (h2 : ciEq b n = true) : ciEq a b = true := by
  simp [ciEq] at *; rw [h1, h2]

theorem isSecretName_congr {a b : Str} (h : ciEq a b = true) : isSecretName a = isSecretName b := by
  simp [isSecretName, ciEq] at *; rw [h]

theorem mem_stripSecrets {h : List Hdr} {x : Hdr} (hx : x ∈ stripSecrets h) :
    x ∈ h ∧ isSecretName x.name = false := by
  simp only [stripSecrets] at hx
  have h1 := mem_popAll.mp hx
  have h2 := mem_popAll.mp h1.1
  have h3 := mem_popAll.mp h2.1
  refine ⟨h3.1, ?_⟩
  simp [isSecretName, h1.2, h2.2, h3.2]

theorem mem_dropContentLength {h : List Hdr} {x : Hdr} (hx : x ∈ dropContentLength h) : x ∈ h := by
  unfold dropContentLength at hx
  split at hx
  · split at hx
    · exact hx
    · exact mem_of_mem_popFirst hx
  · exact hx

/-! ## cookies -/

theorem mem_insertCookie {c : Cookie} {l : List Cookie} {d : Cookie} (hd : d ∈ insertCookie c l) :
    d = c ∨ d ∈ l := by
  induction l with
  | nil => simp [insertCookie] at hd; exact Or.inl hd
  | cons e t ih =>
    simp only [insertCookie] at hd
    split at hd
    · rcases List.mem_cons.mp hd with h1 | h1
      · exact Or.inl h1
      · exact Or.inr (List.mem_cons_of_mem _ h1)
    · rcases List.mem_cons.mp hd with h1 | h1
      · subst h1; exact Or.inr List.mem_cons_self
      · rcases ih h1 with h2 | h2
        · exact Or.inl h2
        · exact Or.inr (List.mem_cons_of_mem _ h2)

theorem mem_loadCookies {base extra : List Cookie} {d : Cookie} (hd : d ∈ loadCookies base extra) :
    d ∈ base ∨ d ∈ extra := by
  unfold loadCookies at hd
  induction extra generalizing base with
  | nil => exact Or.inl hd
  | cons e t ih =>
    simp only [List.foldl_cons] at hd
    rcases ih hd with h1 | h1
    · rcases mem_insertCookie h1 with h2 | h2
      · subst h2; exact Or.inr List.mem_cons_self
      · exact Or.inl h2
    · exact Or.inr (List.mem_cons_of_mem _ h1)

theorem mem_insertSorted {c : Cookie} {l : List Cookie} {d : Cookie} :
    d ∈ insertSorted c l ↔ d = c ∨ d ∈ l := by
  induction l with
  | nil => simp [insertSorted]
  | cons e t ih =>
    simp only [insertSorted]
    split
    · simp
    · simp [ih]; constructor
      · rintro (h | h | h)
        · exact Or.inr (Or.inl h)
        · exact Or.inl h
        · exact Or.inr (Or.inr h)
      · rintro (h | h | h)
        · exact Or.inr (Or.inl h)
        · exact Or.inl h
        · exact Or.inr (Or.inr h)

theorem mem_sortCookies {l : List Cookie} {d : Cookie} : d ∈ sortCookies l ↔ d ∈ l := by
  unfold sortCookies
  induction l with
  | nil => simp
  | cons e t ih => simp [List.foldr_cons, mem_insertSorted, ih]

/-! ## the provenance invariant -/

/-- every provenance of a secret-named header was born within `[lo, hi]` -/
def GoodHdr (lo hi : Nat) (x : Hdr) : Prop :=
  isSecretName x.name = true → ∀ p ∈ x.provs, lo ≤ p.birth ∧ p.birth ≤ hi

def Tagged (lo hi : Nat) (h : List Hdr) : Prop := ∀ x ∈ h, GoodHdr lo hi x

def GoodCookie (lo hi : Nat) (c : Cookie) : Prop := ∀ p ∈ c.provs, lo ≤ p.birth ∧ p.birth ≤ hi

theorem goodHdr_nil (lo hi : Nat) (n v : Str) : GoodHdr lo hi { name := n, value := v, provs := [] } := by
  intro _ p hp; simp at hp

theorem Tagged.mono {lo hi hi' : Nat} {h : List Hdr} (ht : Tagged lo hi h) (hle : hi ≤ hi') : Tagged lo hi' h := by
  intro x hx hs p hp
  have := ht x hx hs p hp
  exact ⟨this.1, Nat.le_trans this.2 hle⟩

theorem Tagged.setHdr {lo hi : Nat} {h : List Hdr} {x : Hdr} (ht : Tagged lo hi h) (hx : GoodHdr lo hi x) :
    Tagged lo hi (setHdr x h) := by
  intro y hy
  rcases mem_setHdr hy with h1 | h1
  · subst h1; exact hx
  · exact ht y h1

theorem Tagged.popFirst {lo hi : Nat} {h : List Hdr} (n : Str) (ht : Tagged lo hi h) : Tagged lo hi (popFirst n h) :=
  fun y hy => ht y (mem_of_mem_popFirst hy)

theorem Tagged.popAll {lo hi : Nat} {h : List Hdr} (n : Str) (ht : Tagged lo hi h) : Tagged lo hi (popAll n h) :=
  fun y hy => ht y (mem_popAll.mp hy).1

theorem Tagged.append {lo hi : Nat} {h g : List Hdr} (ht : Tagged lo hi h) (hg : Tagged lo hi g) :
    Tagged lo hi (h ++ g) := by
  intro y hy
  rcases List.mem_append.mp hy with h1 | h1
  · exact ht y h1
  · exact hg y h1

theorem Tagged.cons {lo hi : Nat} {h : List Hdr} {x : Hdr} (hx : GoodHdr lo hi x) (ht : Tagged lo hi h) :
    Tagged lo hi (x :: h) := by
  intro y hy
  rcases List.mem_cons.mp hy with h1 | h1
  · subst h1; exact hx
  · exact ht y h1

theorem tagged_stripSecrets (lo hi : Nat) (h : List Hdr) : Tagged lo hi (stripSecrets h) := by
  intro x hx hs
  have := (mem_stripSecrets hx).2
  rw [this] at hs; cases hs

theorem Tagged.dropContentLength {lo hi : Nat} {h : List Hdr} (ht : Tagged lo hi h) :
    Tagged lo hi (dropContentLength h) :=
  fun y hy => ht y (mem_dropContentLength hy)

theorem Tagged.addDefault {lo hi : Nat} {h : List Hdr} (kv : Str × Str) (ht : Tagged lo hi h) :
    Tagged lo hi (addDefault kv h) := by
  unfold C17.addDefault
  split
  · exact ht
  · exact ht.append (Tagged.cons (goodHdr_nil _ _ _ _) (fun _ h => by simp at h))

theorem Tagged.autoHeaders {lo hi : Nat} {h : List Hdr} (ht : Tagged lo hi h) : Tagged lo hi (autoHeaders h) := by
  unfold C17.autoHeaders
  apply Tagged.addDefault
  generalize Gen.C17.defaultHeaders = l
  induction l generalizing h with
  | nil => exact ht
  | cons kv t ih => simp only [List.foldl_cons]; exact ih (ht.addDefault kv)

theorem mem_addDefault {kv : Str × Str} {h : List Hdr} {x : Hdr} (hx : x ∈ addDefault kv h) :
    x ∈ h ∨ x.provs = [] := by
  unfold addDefault at hx
  split at hx
  · exact Or.inl hx
  · rcases List.mem_append.mp hx with h1 | h1
    · exact Or.inl h1
    · simp at h1; subst h1; exact Or.inr rfl

theorem mem_foldl_addDefault (l : List (Str × Str)) : ∀ (h : List Hdr) (x : Hdr),
    x ∈ l.foldl (fun acc kv => addDefault kv acc) h → x ∈ h ∨ x.provs = [] := by
  induction l with
  | nil => intro h x hx; exact Or.inl hx
  | cons kv t ih =>
    intro h x hx
    simp only [List.foldl_cons] at hx
    rcases ih _ x hx with h2 | h2
    · exact mem_addDefault h2
    · exact Or.inr h2

theorem mem_autoHeaders {h : List Hdr} {x : Hdr} (hx : x ∈ autoHeaders h) : x ∈ h ∨ x.provs = [] := by
  unfold autoHeaders at hx
  rcases mem_addDefault hx with h1 | h1
  · exact mem_foldl_addDefault _ _ _ h1
  · exact Or.inr h1

theorem isSecretName_HOST : isSecretName HOST = false := by decide
theorem isSecretName_COOKIE : isSecretName COOKIE = true := by decide
theorem isSecretName_AUTHORIZATION : isSecretName AUTHORIZATION = true := by decide

theorem goodHdr_host (lo hi : Nat) (url : Url) (h : List Hdr) : GoodHdr lo hi (hostHeader url h) := by
  intro hs
  unfold hostHeader at hs
  split at hs <;> simp [isSecretName_HOST] at hs

end Aio.C17

namespace Aio.C17
open Aio

/-- no value selected from the cookie jar is ever stored in the `headers` local -/
def NoJar (h : List Hdr) : Prop := ∀ x ∈ h, ∀ p ∈ x.provs, ∀ k, p ≠ Prov.jar k

theorem NoJar.setHdr {h : List Hdr} {x : Hdr} (hn : NoJar h) (hx : ∀ p ∈ x.provs, ∀ k, p ≠ Prov.jar k) :
    NoJar (setHdr x h) := by
  intro y hy
  rcases mem_setHdr hy with h1 | h1
  · subst h1; exact hx
  · exact hn y h1

theorem applyAuth_noJar {env : Env} {cfg : Cfg} {st : St env.jar.σ} {hs : List Hdr}
    (hn : NoJar st.headers) (h : applyAuth env cfg st = .ok hs) : NoJar hs := by
  unfold applyAuth at h
  repeat' split at h
  all_goals (cases h <;> first | exact hn | (apply hn.setHdr; intro p hp k; simp at hp; subst hp; simp))

/-- the invariant of the loop state: secret-named headers in the `headers` local were all
born in the current same-origin streak; per-request cookies are only still present while the
streak is the one that began at hop 0 -/
structure Inv {σ : Type} (st : St σ) : Prop where
  hdrs : Tagged st.since st.idx st.headers
  noJar : NoJar st.headers
  cookies : st.cookies.isSome = true → st.since = 0
  le : st.since ≤ st.idx

theorem applyAuth_tagged {env : Env} {cfg : Cfg} {st : St env.jar.σ} {hs : List Hdr}
    (hinv : Inv st) (h : applyAuth env cfg st = .ok hs) : Tagged st.since st.idx hs := by
  unfold applyAuth at h
  split at h
  · split at h
    · cases h
    · injection h with h; subst h
      apply hinv.hdrs.setHdr
      intro _ p hp
      simp at hp; subst hp
      exact ⟨hinv.le, Nat.le_refl _⟩
  · split at h
    · split at h
      · injection h with h; subst h
        apply hinv.hdrs.setHdr
        intro _ p hp
        simp at hp; subst hp
        exact ⟨hinv.le, Nat.le_refl _⟩
      · injection h with h; subst h; exact hinv.hdrs
    · injection h with h; subst h; exact hinv.hdrs

theorem allCookies_good {env : Env} {st : St env.jar.σ} (url : Url) (hinv : Inv st) :
    ∀ c ∈ allCookies env st url, GoodCookie st.since st.idx c := by
  intro c hc
  rcases mem_loadCookies hc with h1 | h1
  · simp only [jarCookies, List.mem_map] at h1
    obtain ⟨nv, _, rfl⟩ := h1
    intro p hp; simp at hp; subst hp
    exact ⟨hinv.le, Nat.le_refl _⟩
  · unfold reqCookies at h1
    split at h1
    · next cs hcs =>
      simp only [List.mem_map] at h1
      obtain ⟨nv, _, rfl⟩ := h1
      intro p hp; simp at hp; subst hp
      have := hinv.cookies (by simp [hcs])
      simp [Prov.birth, this]
    · simp at h1

theorem headerCookies_good {env : Env} {lo hi : Nat} {h : List Hdr} (ht : Tagged lo hi h) :
    ∀ c ∈ headerCookies env h, GoodCookie lo hi c := by
  intro c hc
  unfold headerCookies at hc
  split at hc
  · next x hx =>
    simp only [List.mem_map] at hc
    obtain ⟨nv, _, rfl⟩ := hc
    have ⟨hm, hn⟩ := getFirst_mem hx
    have hsec : isSecretName x.name = true := by
      rw [isSecretName_congr hn]; exact isSecretName_COOKIE
    exact ht x hm hsec
  · simp at hc

theorem mergedCookies_good {env : Env} {lo hi : Nat} {h : List Hdr} {all : List Cookie}
    (ht : Tagged lo hi h) (ha : ∀ c ∈ all, GoodCookie lo hi c) :
    ∀ c ∈ mergedCookies env h all, GoodCookie lo hi c := by
  intro c hc
  unfold mergedCookies at hc
  split at hc
  · simp at hc
  · rw [mem_sortCookies] at hc
    rcases mem_loadCookies hc with h1 | h1
    · rcases mem_loadCookies h1 with h2 | h2
      · simp at h2
      · exact headerCookies_good ht c h2
    · exact ha c h1

theorem cookieHeaders_tagged {env : Env} {lo hi : Nat} {h : List Hdr} {all : List Cookie}
    (ht : Tagged lo hi h) (ha : ∀ c ∈ all, GoodCookie lo hi c) : Tagged lo hi (cookieHeaders env h all) := by
  unfold cookieHeaders
  split
  · exact ht
  · apply (ht.popAll COOKIE).append
    apply Tagged.cons _ (fun _ h => by simp at h)
    intro _ p hp
    simp only [List.mem_flatMap] at hp
    obtain ⟨c, hc, hpc⟩ := hp
    exact mergedCookies_good ht ha c hc p hpc

theorem bodyHeaders_tagged {lo hi : Nat} {h : List Hdr} (m : Str) (d : Option Body) (ht : Tagged lo hi h) :
    Tagged lo hi (bodyHeaders m d h).1 := by
  unfold bodyHeaders
  split
  · split
    · exact ht.setHdr (goodHdr_nil _ _ _ _)
    · exact ht
  · next b =>
    have h1 : Tagged lo hi (if !has CONTENT_LENGTH h then
        if b.sized then (setHdr { name := CONTENT_LENGTH, value := (toDec b.data.length).map (·.toNat) } h, false)
        else (h, true) else (h, false)).1 := by
      split
      · split
        · exact ht.setHdr (goodHdr_nil _ _ _ _)
        · exact ht
      · exact ht
    generalize (if !has CONTENT_LENGTH h then
        if b.sized then (setHdr { name := CONTENT_LENGTH, value := (toDec b.data.length).map (·.toNat) } h, false)
        else (h, true) else (h, false)) = pr at h1
    obtain ⟨h', ch⟩ := pr
    simp only at h1 ⊢
    split
    · split
      · exact h1
      · exact h1.setHdr (goodHdr_nil _ _ _ _)
    · exact h1

theorem teHeaders_cases {h h' : List Hdr} {m : Str} {d : Option Body} {ch : Bool}
    (he : teHeaders m d ch h = .ok h') :
    h' = h ∨ h' = setHdr { name := TRANSFER_ENCODING, value := chunkedWord } h := by
  unfold teHeaders at he
  simp only at he
  repeat' split at he
  all_goals (cases he <;> first | exact Or.inl rfl | exact Or.inr rfl)

theorem teHeaders_tagged {lo hi : Nat} {h h' : List Hdr} {m : Str} {d : Option Body} {ch : Bool}
    (ht : Tagged lo hi h) (he : teHeaders m d ch h = .ok h') : Tagged lo hi h' := by
  rcases teHeaders_cases he with h1 | h1
  · subst h1; exact ht
  · subst h1; exact ht.setHdr (goodHdr_nil _ _ _ _)

theorem defaultCtype_tagged {lo hi : Nat} {h : List Hdr} (m : Str) (ht : Tagged lo hi h) :
    Tagged lo hi (defaultCtype m h) := by
  unfold defaultCtype
  split
  · exact ht.setHdr (goodHdr_nil _ _ _ _)
  · exact ht

end Aio.C17

namespace Aio.C17
open Aio

/-- what one `prepare` establishes: the request on the wire carries only secrets born in
the current streak; the loop state keeps the invariant; the ghost counters are copied -/
structure PrepSpec (env : Env) (st st1 : St env.jar.σ) (s : Sent) : Prop where
  wire : Tagged st.since st.idx s.headers
  pairs : ∀ c ∈ s.cookiePairs, GoodCookie st.since st.idx c
  jarTag : ∀ c ∈ s.cookiePairs, ∀ p ∈ c.provs, ∀ k, p = Prov.jar k → k = st.idx
  sJar : s.jarSel = env.jar.filter st.jar s.url
  sData : s.data = st.data
  sUrl : s.url = { st.url with cred := none }
  sBody : wireBody s.data st.consumed s.headers = .ok s.body
  sIdx : s.idx = st.idx
  sSince : s.since = st.since
  sOrigin : s.url.origin = st.url.origin
  sMethod : s.method = st.method
  inv : Inv st1
  idx : st1.idx = st.idx
  since : st1.since = st.since
  url : st1.url = s.url
  cookies : st1.cookies = st.cookies
  redirects : st1.redirects = st.redirects
  history : st1.history = st.history
  method : st1.method = st.method
  data : st1.data = st.data
  jar : st1.jar = st.jar
  retry : st1.retry = st.retry

theorem prepare_spec {env : Env} {cfg : Cfg} {st st1 : St env.jar.σ} {s : Sent}
    (hinv : Inv st) (h : prepare env cfg st = .ok (st1, s)) : PrepSpec env st st1 s := by
  unfold prepare at h
  simp only at h
  split at h
  · cases h
  · split at h
    · cases h
    · next hs hauth =>
      have t0 := applyAuth_tagged hinv hauth
      have tall := allCookies_good { st.url with cred := none } hinv
      have t1 : Tagged st.since st.idx (autoHeaders (hostHeader { st.url with cred := none } hs :: popFirst HOST hs)) :=
        (Tagged.cons (goodHdr_host _ _ _ _) (t0.popFirst HOST)).autoHeaders
      have nj0 := applyAuth_noJar hinv.noJar hauth
      have nj1 : NoJar (autoHeaders (hostHeader { st.url with cred := none } hs :: popFirst HOST hs)) := by
        intro x hx
        rcases mem_autoHeaders hx with h1 | h1
        · rcases List.mem_cons.mp h1 with h2 | h2
          · subst h2
            unfold hostHeader
            split
            · next y hy => exact nj0 y (getFirst_mem hy).1
            · intro p hp; simp at hp
          · exact nj0 x (mem_of_mem_popFirst h2)
        · rw [h1]; intro p hp; simp at hp
      have t2 := cookieHeaders_tagged (env := env) t1 tall
      have t3 := bodyHeaders_tagged st.method st.data t2
      generalize hb : bodyHeaders st.method st.data _ = pr at h t3
      obtain ⟨h3, ch⟩ := pr
      simp only at h t3
      split at h
      · cases h
      · next h4 hte =>
        have t4 := teHeaders_tagged t3 hte
        have t5 := defaultCtype_tagged st.method t4
        split at h
        · cases h
        · next body hbody =>
          injection h with h
          injection h with h1 h2
          subst h1; subst h2
          exact {
            wire := t5
            pairs := mergedCookies_good t1 tall
            jarTag := by
              intro c hc p hp k hk
              subst hk
              unfold mergedCookies at hc
              split at hc
              · simp at hc
              · rw [mem_sortCookies] at hc
                rcases mem_loadCookies hc with h1 | h1
                · rcases mem_loadCookies h1 with h2 | h2
                  · simp at h2
                  · exfalso
                    unfold headerCookies at h2
                    split at h2
                    · next x hx =>
                      simp only [List.mem_map] at h2
                      obtain ⟨nv, _, rfl⟩ := h2
                      have hm := (getFirst_mem hx).1
                      -- x is a header of the wire list built from the persistent headers and defaults
                      exact nj1 x hm _ hp k rfl
                    · simp at h2
                · rcases mem_loadCookies h1 with h2 | h2
                  · simp only [jarCookies, List.mem_map] at h2
                    obtain ⟨nv, _, rfl⟩ := h2
                    simpa using hp
                  · unfold reqCookies at h2
                    split at h2
                    · simp only [List.mem_map] at h2
                      obtain ⟨nv, _, rfl⟩ := h2
                      simp at hp
                    · simp at h2
            sJar := rfl
            sData := rfl
            sUrl := rfl
            sBody := hbody
            sIdx := rfl, sSince := rfl, sOrigin := rfl, sMethod := rfl
            inv := ⟨t0.popFirst HOST, fun x hx => nj0 x (mem_of_mem_popFirst hx), hinv.cookies, hinv.le⟩
            idx := rfl, since := rfl, url := rfl, cookies := rfl, redirects := rfl, history := rfl
            method := rfl, data := rfl, jar := rfl, retry := rfl }

end Aio.C17

namespace Aio.C17
open Aio

/-- what a followed redirect establishes -/
structure ReactSpec (env : Env) (cfg : Cfg) (st1 st2 : St env.jar.σ) (s : Sent) (r : Resp) (evs : List Ev) : Prop where
  jar : st2.jar = env.jar.update st1.jar s.url r.sc
  inv : Inv st2
  idx : st2.idx = st1.idx + 1
  streak : (st2.since = st1.since ∧ st2.url.origin = s.url.origin) ∨ st2.since = st1.idx + 1
  redirects : st2.redirects = st1.redirects + 1
  history : st2.history = st1.history ++ [st1.idx]
  isRedir : isRedirect r.status = true ∧ cfg.allowRedirects = true
  bound : cfg.maxRedirects = 0 ∨ st1.redirects + 1 < cfg.maxRedirects
  target : r.loc = .ok st2.url
  method : st2.method = if toGet r.status s.method then GET else st1.method
  data : st2.data = if toGet r.status s.method then none else some (st1.data.getD emptyBody)
  fresh : st2.consumed = false
  notConsumed : toGet r.status s.method = false → st1.consumed = false
  retry : st2.retry = st1.retry
  evs : evs = [.release st1.idx, .release st1.idx]

theorem react_spec {env : Env} {cfg : Cfg} {st1 st2 : St env.jar.σ} {s : Sent} {r : Resp} {evs : List Ev}
    (hinv : Inv st1) (h : react env cfg st1 s r = .continue st2 evs) : ReactSpec env cfg st1 st2 s r evs := by
  unfold react at h
  simp only at h
  split at h
  · next hred =>
    split at h
    · cases h
    · next hmax =>
      split at h
      · cases h
      · next hcons =>
        split at h
        · cases h
        · cases h
        · cases h
        · cases h
        · next target hloc =>
          injection h with h1 h2
          subst h1; subst h2
          have hb : cfg.maxRedirects = 0 ∨ st1.redirects + 1 < cfg.maxRedirects := by
            simp at hmax
            by_cases h0 : cfg.maxRedirects = 0
            · exact Or.inl h0
            · exact Or.inr (hmax h0)
          have hfresh : (if toGet r.status s.method then false else st1.consumed) = false := by
            simp at hcons
            cases hg : toGet r.status s.method
            · simp; exact hcons hg
            · simp
          have hnc : toGet r.status s.method = false → st1.consumed = false := by
            intro hg; simp at hcons; exact hcons hg
          simp at hred
          by_cases hc : (s.url.origin != target.origin) = true
          · simp only [hc, if_true]
            exact {
              jar := rfl
              inv := ⟨tagged_stripSecrets _ _ _, by
                intro x hx
                have h1 := (mem_stripSecrets hx).1
                split at h1
                · exact hinv.noJar x (mem_dropContentLength h1)
                · exact hinv.noJar x h1, by simp, by simp⟩
              idx := rfl, streak := Or.inr rfl, redirects := rfl, history := rfl
              isRedir := hred, bound := hb, target := hloc, method := rfl, data := rfl, fresh := hfresh, notConsumed := hnc, retry := rfl, evs := rfl }
          · have hc' : (s.url.origin != target.origin) = false := by simpa using hc
            have heq : target.origin = s.url.origin := by
              simp at hc'; exact hc'.symm
            simp only [hc', Bool.false_eq_true, if_false]
            refine {
              jar := rfl
              inv := ⟨?_, by
                intro x hx
                split at hx
                · exact hinv.noJar x (mem_dropContentLength hx)
                · exact hinv.noJar x hx, hinv.cookies, Nat.le_succ_of_le hinv.le⟩
              idx := rfl, streak := Or.inl ⟨rfl, heq⟩, redirects := rfl, history := rfl
              isRedir := hred, bound := hb, target := hloc, method := rfl, data := rfl, fresh := hfresh, notConsumed := hnc, retry := rfl, evs := rfl }
            have hm := hinv.hdrs.mono (Nat.le_succ st1.idx)
            show Tagged st1.since (st1.idx + 1) (if toGet r.status s.method = true then dropContentLength st1.headers else st1.headers)
            split
            · exact hm.dropContentLength
            · exact hm
  · cases h

end Aio.C17

namespace Aio.C17
open Aio

/-- per-request facts along the whole run, relative to the state the run starts from -/
def SentOk {σ : Type} (st : St σ) (sk : Sent) : Prop :=
  Tagged sk.since sk.idx sk.headers ∧
  ((∀ c ∈ sk.cookiePairs, GoodCookie sk.since sk.idx c) ∧
    (∀ c ∈ sk.cookiePairs, ∀ p ∈ c.provs, ∀ k, p = Prov.jar k → k = sk.idx)) ∧
  st.idx ≤ sk.idx ∧ sk.since ≤ sk.idx ∧
  ((sk.since = st.since ∧ sk.url.origin = st.url.origin) ∨ st.idx < sk.since)

/-- requests `sj … sk` inside one streak go to one origin -/
def Streaks (sent : List Sent) : Prop :=
  ∀ sj ∈ sent, ∀ sk ∈ sent, sk.since ≤ sj.idx → sj.idx ≤ sk.idx → sj.url.origin = sk.url.origin

theorem run_nil_chain {env : Env} {cfg : Cfg} (st : St env.jar.σ) :
    run env cfg st [] = match prepare env cfg st with
      | .error e => { sent := [], events := [], out := .err e }
      | .ok (_, s) => { sent := [s], events := [], out := .pending } := by
  conv => lhs; unfold run
  cases prepare env cfg st with
  | error e => rfl
  | ok pr => obtain ⟨a, b⟩ := pr; rfl

theorem run_cons_chain {env : Env} {cfg : Cfg} (st : St env.jar.σ) (r : Resp) (rest : List Resp) :
    run env cfg st (r :: rest) = match prepare env cfg st with
      | .error e => { sent := [], events := [], out := .err e }
      | .ok (st1, s) =>
        match react env cfg st1 s r with
        | .stop out evs => { sent := [s], events := evs, out := out }
        | .continue st2 evs =>
          let res := run env cfg st2 rest
          { sent := s :: res.sent, events := evs ++ res.events, out := res.out } := by
  conv => lhs; unfold run
  cases prepare env cfg st with
  | error e => rfl
  | ok pr => obtain ⟨a, b⟩ := pr; rfl

theorem sentOk_head {env : Env} {st st1 : St env.jar.σ} {s : Sent} (hinv : Inv st) (hp : PrepSpec env st st1 s) : SentOk st s := by
  refine ⟨?_, ?_, ?_, ?_, ?_⟩
  · rw [hp.sSince, hp.sIdx]; exact hp.wire
  · rw [hp.sSince, hp.sIdx]; exact ⟨hp.pairs, hp.jarTag⟩
  · rw [hp.sIdx]; exact Nat.le_refl _
  · rw [hp.sSince, hp.sIdx]; exact hinv.le
  · exact Or.inl ⟨hp.sSince, hp.sOrigin⟩

theorem streaks_single (s : Sent) : Streaks [s] := by
  intro sj hj sk hk _ _
  simp at hj hk; subst hj; subst hk; rfl

theorem run_trace {env : Env} {cfg : Cfg} (chain : List Resp) :
    ∀ (st : St env.jar.σ), Inv st →
      (∀ sk ∈ (run env cfg st chain).sent, SentOk st sk) ∧ Streaks (run env cfg st chain).sent := by
  induction chain with
  | nil =>
    intro st hinv
    rw [run_nil_chain]
    cases hp : prepare env cfg st with
    | error e => simp [Streaks]
    | ok pr =>
      obtain ⟨st1, s⟩ := pr
      have ps := prepare_spec hinv hp
      simp only
      refine ⟨?_, streaks_single s⟩
      intro sk hk; simp at hk; subst hk; exact sentOk_head hinv ps
  | cons r rest ih =>
    intro st hinv
    rw [run_cons_chain]
    cases hp : prepare env cfg st with
    | error e => simp [Streaks]
    | ok pr =>
      obtain ⟨st1, s⟩ := pr
      have ps := prepare_spec hinv hp
      simp only
      cases hr : react env cfg st1 s r with
      | stop out evs =>
        simp only
        refine ⟨?_, streaks_single s⟩
        intro sk hk; simp at hk; subst hk; exact sentOk_head hinv ps
      | «continue» st2 evs =>
        simp only
        have rs := react_spec ps.inv hr
        obtain ⟨ihOk, ihStreak⟩ := ih st2 rs.inv
        have hs : SentOk st s := sentOk_head hinv ps
        -- facts about every later request, re-based from st2 to st
        have rebase : ∀ sk ∈ (run env cfg st2 rest).sent, SentOk st sk ∧ st.idx < sk.idx ∧
            ((sk.since = st.since ∧ sk.url.origin = s.url.origin) ∨ st.idx < sk.since) := by
          intro sk hk
          obtain ⟨a, b, c, d, e⟩ := ihOk sk hk
          have hidx2 : st2.idx = st.idx + 1 := by rw [rs.idx, ps.idx]
          have hlt : st.idx < sk.idx := by omega
          have hcase : (sk.since = st.since ∧ sk.url.origin = s.url.origin) ∨ st.idx < sk.since := by
            rcases e with ⟨e1, e2⟩ | e
            · rcases rs.streak with ⟨f1, f2⟩ | f
              · left; exact ⟨by rw [e1, f1, ps.since], by rw [e2, f2]⟩
              · right; rw [e1, f, ps.idx]; omega
            · right; omega
          refine ⟨⟨a, b, by omega, d, ?_⟩, hlt, hcase⟩
          rcases hcase with ⟨h1, h2⟩ | h1
          · left; exact ⟨h1, by rw [h2, ps.sOrigin]⟩
          · right; exact h1
        refine ⟨?_, ?_⟩
        · intro sk hk
          rcases List.mem_cons.mp hk with h1 | h1
          · subst h1; exact hs
          · exact (rebase sk h1).1
        · intro sj hj sk hk hle1 hle2
          rcases List.mem_cons.mp hj with hj' | hj' <;> rcases List.mem_cons.mp hk with hk' | hk'
          · subst hj'; subst hk'; rfl
          · subst hj'
            obtain ⟨_, hlt, hcase⟩ := rebase sk hk'
            rcases hcase with ⟨_, h2⟩ | h1
            · exact h2.symm
            · rw [ps.sIdx] at hle1; omega
          · subst hk'
            obtain ⟨_, hlt, _⟩ := rebase sj hj'
            rw [ps.sIdx] at hle2; omega
          · exact ihStreak sj hj' sk hk' hle1 hle2

end Aio.C17

namespace Aio.C17
open Aio

theorem mem_prepareHeaders {d c : List Hdr} {x : Hdr} (hx : x ∈ prepareHeaders d c) : x ∈ d ∨ x ∈ c := by
  unfold prepareHeaders at hx
  suffices H : ∀ (c : List Hdr) (acc : List Hdr × List Str),
      x ∈ (c.foldl (fun (acc : List Hdr × List Str) x =>
        if acc.2.contains x.name then (acc.1 ++ [x], acc.2) else (setHdr x acc.1, x.name :: acc.2)) acc).1 →
      x ∈ acc.1 ∨ x ∈ c from H c (d, []) hx
  intro c
  induction c with
  | nil => intro acc h; exact Or.inl h
  | cons y t ih =>
    intro acc h
    simp only [List.foldl_cons] at h
    rcases ih _ h with h1 | h1
    · split at h1
      · simp only [List.mem_append, List.mem_singleton] at h1
        rcases h1 with h2 | h2
        · exact Or.inl h2
        · subst h2; exact Or.inr List.mem_cons_self
      · rcases mem_setHdr h1 with h2 | h2
        · subst h2; exact Or.inr List.mem_cons_self
        · exact Or.inl h2
    · exact Or.inr (List.mem_cons_of_mem _ h1)

theorem init_inv (env : Env) (url : Url) (params : Option Str) (method : Str) (defaults headers : List (Str × Str))
    (cookies : Option (List (Str × Str))) (data : Option Body) (jar0 : env.jar.σ) :
    Inv (init env url params method defaults headers cookies data jar0) := by
  have hprov : ∀ x ∈ (init env url params method defaults headers cookies data jar0).headers, x.provs = [.caller] := by
    intro x hx
    rcases mem_prepareHeaders hx with h1 | h1 <;>
    · simp only [List.mem_map] at h1
      obtain ⟨nv, _, rfl⟩ := h1
      rfl
  refine ⟨?_, ?_, fun _ => rfl, Nat.le_refl _⟩
  · intro x hx _ p hp
    rw [hprov x hx] at hp; simp at hp; subst hp
    exact ⟨Nat.le_refl _, Nat.le_refl _⟩
  · intro x hx p hp k
    rw [hprov x hx] at hp; simp at hp; subst hp; simp

end Aio.C17

namespace Aio.C17
open Aio

/-- the four ways one unfolding of `run` can go -/
inductive RunView (env : Env) (cfg : Cfg) (st : St env.jar.σ) (chain : List Resp) (res : Result) : Prop where
  | prepErr (e : Err) (hp : prepare env cfg st = .error e)
      (hres : res = { sent := [], events := [], out := .err e })
  | pending (st1 : St env.jar.σ) (s : Sent) (hp : prepare env cfg st = .ok (st1, s)) (hc : chain = [])
      (hres : res = { sent := [s], events := [], out := .pending })
  | stop (st1 : St env.jar.σ) (s : Sent) (r : Resp) (rest : List Resp) (out : Outcome) (evs : List Ev)
      (hp : prepare env cfg st = .ok (st1, s)) (hc : chain = r :: rest)
      (hr : react env cfg st1 s r = .stop out evs)
      (hres : res = { sent := [s], events := evs, out := out })
  | cont (st1 : St env.jar.σ) (s : Sent) (r : Resp) (rest : List Resp) (st2 : St env.jar.σ) (evs : List Ev)
      (hp : prepare env cfg st = .ok (st1, s)) (hc : chain = r :: rest)
      (hr : react env cfg st1 s r = .continue st2 evs)
      (hres : res = { sent := s :: (run env cfg st2 rest).sent, events := evs ++ (run env cfg st2 rest).events,
                      out := (run env cfg st2 rest).out })

theorem run_view {env : Env} {cfg : Cfg} (st : St env.jar.σ) (chain : List Resp) :
    RunView env cfg st chain (run env cfg st chain) := by
  cases chain with
  | nil =>
    rw [run_nil_chain]
    cases hp : prepare env cfg st with
    | error e => exact .prepErr e hp rfl
    | ok pr => obtain ⟨st1, s⟩ := pr; exact .pending st1 s hp rfl rfl
  | cons r rest =>
    rw [run_cons_chain]
    cases hp : prepare env cfg st with
    | error e => exact .prepErr e hp rfl
    | ok pr =>
      obtain ⟨st1, s⟩ := pr
      simp only
      cases hr : react env cfg st1 s r with
      | stop out evs => exact .stop st1 s r rest out evs hp rfl hr rfl
      | «continue» st2 evs => exact .cont st1 s r rest st2 evs hp rfl hr rfl

/-- what `react` can answer when it stops, by the shape of the response -/
theorem react_stop_cases {env : Env} {cfg : Cfg} {st1 : St env.jar.σ} {s : Sent} {r : Resp} {out : Outcome} {evs : List Ev}
    (h : react env cfg st1 s r = .stop out evs) :
    -- not a (followed) redirect: returned as is
    ((isRedirect r.status && cfg.allowRedirects) = false ∧ out = .ok st1.idx st1.history ∧ evs = []) ∨
    ((isRedirect r.status && cfg.allowRedirects) = true ∧
      ( (out = .err .tooManyRedirects ∧ evs = [.close st1.idx]) ∨
        (out = .err .payloadConsumed ∧ evs = [.close st1.idx]) ∨
        (r.loc = .none ∧ out = .ok st1.idx (st1.history ++ [st1.idx]) ∧ evs = []) ∨
        (r.loc = .invalid ∧ out = .err .invalidRedirectUrl ∧ evs = [.release st1.idx, .close st1.idx]) ∨
        (r.loc = .nonHttp ∧ out = .err .nonHttpRedirect ∧ evs = [.release st1.idx, .close st1.idx]) ∨
        (r.loc = .badOrigin ∧ out = .err .invalidRedirectUrl ∧ evs = [.release st1.idx, .close st1.idx]))) := by
  unfold react at h
  simp only at h
  split at h
  · next hred =>
    right; refine ⟨hred, ?_⟩
    split at h
    · injection h with h1 h2; subst h1; subst h2; exact Or.inl ⟨rfl, rfl⟩
    · split at h
      · injection h with h1 h2; subst h1; subst h2; exact Or.inr (Or.inl ⟨rfl, rfl⟩)
      · split at h
        · next hl => injection h with h1 h2; subst h1; subst h2; exact Or.inr (Or.inr (Or.inl ⟨hl, rfl, rfl⟩))
        · next hl => injection h with h1 h2; subst h1; subst h2; exact Or.inr (Or.inr (Or.inr (Or.inl ⟨hl, rfl, rfl⟩)))
        · next hl => injection h with h1 h2; subst h1; subst h2; exact Or.inr (Or.inr (Or.inr (Or.inr (Or.inl ⟨hl, rfl, rfl⟩))))
        · next hl => injection h with h1 h2; subst h1; subst h2; exact Or.inr (Or.inr (Or.inr (Or.inr (Or.inr ⟨hl, rfl, rfl⟩))))
        · cases h
  · next hred =>
    left
    injection h with h1 h2; subst h1; subst h2
    exact ⟨by simpa using hred, rfl, rfl⟩

/-- number of requests: with a positive `max_redirects`, requests + redirects so far ≤ max -/
theorem run_count {env : Env} {cfg : Cfg} (hmax : cfg.maxRedirects ≠ 0) (chain : List Resp) :
    ∀ (st : St env.jar.σ), Inv st → st.redirects < cfg.maxRedirects →
      (run env cfg st chain).sent.length + st.redirects ≤ cfg.maxRedirects := by
  induction chain with
  | nil =>
    intro st hinv hlt
    rcases run_view (cfg := cfg) st [] with ⟨e, hp, hres⟩ | ⟨st1, s, hp, hc, hres⟩ | ⟨st1, s, r, rest, out, evs, hp, hc, hr, hres⟩ | ⟨st1, s, r, rest, st2, evs, hp, hc, hr, hres⟩
    · rw [hres]; simp; omega
    · rw [hres]; simp; omega
    · cases hc
    · cases hc
  | cons r0 rest0 ih =>
    intro st hinv hlt
    rcases run_view (cfg := cfg) st (r0 :: rest0) with ⟨e, hp, hres⟩ | ⟨st1, s, hp, hc, hres⟩ | ⟨st1, s, r, rest, out, evs, hp, hc, hr, hres⟩ | ⟨st1, s, r, rest, st2, evs, hp, hc, hr, hres⟩
    · rw [hres]; simp; omega
    · rw [hres]; simp; omega
    · rw [hres]; simp; omega
    · injection hc with h1 h2; subst h1; subst h2
      have ps := prepare_spec hinv hp
      have rs := react_spec ps.inv hr
      rw [hres]
      have hb : st2.redirects < cfg.maxRedirects := by
        rcases rs.bound with hb | hb
        · exact absurd hb hmax
        · rw [rs.redirects]; exact hb
      have := ih st2 rs.inv hb
      rw [rs.redirects, ps.redirects] at this
      simp only [List.length_cons]
      omega

end Aio.C17

namespace Aio.C17
open Aio

theorem run_head {env : Env} {cfg : Cfg} {st : St env.jar.σ} {chain : List Resp} {s0 : Sent}
    (h : (run env cfg st chain).sent[0]? = some s0) : ∃ st1, prepare env cfg st = .ok (st1, s0) := by
  rcases run_view (cfg := cfg) st chain with ⟨e, hp, hres⟩ | ⟨st1, s, hp, hc, hres⟩ | ⟨st1, s, r, rest, out, evs, hp, hc, hr, hres⟩ | ⟨st1, s, r, rest, st2, evs, hp, hc, hr, hres⟩
  all_goals (rw [hres] at h; simp at h)
  all_goals (subst h; exact ⟨st1, hp⟩)

/-- every request after the first was caused by a followed redirect with a well-formed
http(s) target, goes to that target, and has method / payload per the status × method table -/
theorem run_follow {env : Env} {cfg : Cfg} (chain : List Resp) :
    ∀ (st : St env.jar.σ) (k : Nat) (sk : Sent), Inv st → (run env cfg st chain).sent[k + 1]? = some sk →
      ∃ sj r u, (run env cfg st chain).sent[k]? = some sj ∧ chain[k]? = some r ∧ r.loc = .ok u ∧
        isRedirect r.status = true ∧ cfg.allowRedirects = true ∧
        sk.url = { u with cred := none } ∧ sk.idx = st.idx + k + 1 ∧ sj.idx = st.idx + k ∧
        sk.method = (if toGet r.status sj.method then GET else sj.method) ∧
        sk.data = (if toGet r.status sj.method then none else some (sj.data.getD emptyBody)) ∧
        wireBody sk.data false sk.headers = .ok sk.body := by
  induction chain with
  | nil =>
    intro st k sk hinv h
    rcases run_view (cfg := cfg) st [] with ⟨e, hp, hres⟩ | ⟨st1, s, hp, hc, hres⟩ | ⟨st1, s, r, rest, out, evs, hp, hc, hr, hres⟩ | ⟨st1, s, r, rest, st2, evs, hp, hc, hr, hres⟩
    · rw [hres] at h; simp at h
    · rw [hres] at h; simp at h
    · cases hc
    · cases hc
  | cons r0 rest0 ih =>
    intro st k sk hinv h
    rcases run_view (cfg := cfg) st (r0 :: rest0) with ⟨e, hp, hres⟩ | ⟨st1, s, hp, hc, hres⟩ | ⟨st1, s, r, rest, out, evs, hp, hc, hr, hres⟩ | ⟨st1, s, r, rest, st2, evs, hp, hc, hr, hres⟩
    · rw [hres] at h; simp at h
    · cases hc
    · rw [hres] at h; simp at h
    · injection hc with h1 h2; subst h1; subst h2
      have ps := prepare_spec hinv hp
      have rs := react_spec ps.inv hr
      rw [hres] at h ⊢
      simp only [List.getElem?_cons_succ] at h
      cases k with
      | zero =>
        obtain ⟨st1', hp'⟩ := run_head h
        have ps' := prepare_spec rs.inv hp'
        refine ⟨s, r0, st2.url, by simp, by simp, rs.target, rs.isRedir.1, rs.isRedir.2, ps'.sUrl, ?_, ?_, ?_, ?_, ?_⟩
        · rw [ps'.sIdx, rs.idx, ps.idx]
        · rw [ps.sIdx]; rfl
        · rw [ps'.sMethod, rs.method, ps.method, ps.sMethod]
        · rw [ps'.sData, rs.data, ps.data, ps.sData]
        · have := ps'.sBody; rw [rs.fresh] at this; exact this
      | succ k' =>
        obtain ⟨sj, r, u, a1, a2, a3, a4, a5, a6, a7, a8, a9, a10, a11⟩ := ih st2 k' sk rs.inv h
        refine ⟨sj, r, u, by simpa using a1, by simpa using a2, a3, a4, a5, a6, ?_, ?_, a9, a10, a11⟩
        · rw [a7, rs.idx, ps.idx]; omega
        · rw [a8, rs.idx, ps.idx]; omega

/-- `history` and releases on a successful return -/
theorem run_history {env : Env} {cfg : Cfg} (chain : List Resp) :
    ∀ (st : St env.jar.σ), Inv st → st.history = List.range st.idx →
      ∀ f hist, (run env cfg st chain).out = .ok f hist →
        st.idx ≤ f ∧ f + 1 = st.idx + (run env cfg st chain).sent.length ∧
        (∀ i, st.idx ≤ i → i < f → Ev.release i ∈ (run env cfg st chain).events) ∧
        ∃ r, chain[f - st.idx]? = some r ∧
          (((isRedirect r.status && cfg.allowRedirects) = false ∧ hist = List.range f) ∨
           ((isRedirect r.status && cfg.allowRedirects) = true ∧ r.loc = .none ∧ hist = List.range (f + 1))) := by
  induction chain with
  | nil =>
    intro st hinv hh f hist h
    rcases run_view (cfg := cfg) st [] with ⟨e, hp, hres⟩ | ⟨st1, s, hp, hc, hres⟩ | ⟨st1, s, r, rest, out, evs, hp, hc, hr, hres⟩ | ⟨st1, s, r, rest, st2, evs, hp, hc, hr, hres⟩
    · rw [hres] at h; cases h
    · rw [hres] at h; cases h
    · cases hc
    · cases hc
  | cons r0 rest0 ih =>
    intro st hinv hh f hist h
    rcases run_view (cfg := cfg) st (r0 :: rest0) with ⟨e, hp, hres⟩ | ⟨st1, s, hp, hc, hres⟩ | ⟨st1, s, r, rest, out, evs, hp, hc, hr, hres⟩ | ⟨st1, s, r, rest, st2, evs, hp, hc, hr, hres⟩
    · rw [hres] at h; cases h
    · cases hc
    · injection hc with h1 h2; subst h1; subst h2
      have ps := prepare_spec hinv hp
      rw [hres] at h ⊢
      simp only at h
      subst h
      rcases react_stop_cases hr with ⟨h1, h2, h3⟩ | ⟨h1, h2⟩
      · injection h2 with h4 h5
        subst h4; subst h5
        refine ⟨by rw [ps.idx]; exact Nat.le_refl _, by simp [ps.idx], ?_, r0, by simp [ps.idx], Or.inl ⟨h1, ?_⟩⟩
        · intro i a b; rw [ps.idx] at b; omega
        · rw [ps.history, hh, ps.idx]
      · rcases h2 with ⟨h2, _⟩ | ⟨h2, _⟩ | ⟨hl, h2, _⟩ | ⟨_, h2, _⟩ | ⟨_, h2, _⟩ | ⟨_, h2, _⟩
        · cases h2
        · cases h2
        · injection h2 with h4 h5
          subst h4; subst h5
          refine ⟨by rw [ps.idx]; exact Nat.le_refl _, by simp [ps.idx], ?_, r0, by simp [ps.idx], Or.inr ⟨h1, hl, ?_⟩⟩
          · intro i a b; rw [ps.idx] at b; omega
          · rw [ps.history, hh, ps.idx, List.range_succ]
        · cases h2
        · cases h2
        · cases h2
    · injection hc with h1 h2; subst h1; subst h2
      have ps := prepare_spec hinv hp
      have rs := react_spec ps.inv hr
      rw [hres] at h ⊢
      simp only at h
      have hh2 : st2.history = List.range st2.idx := by
        rw [rs.history, rs.idx, ps.history, ps.idx, hh, List.range_succ]
      obtain ⟨b1, b2, b3, r, b4, b5⟩ := ih st2 rs.inv hh2 f hist h
      have hidx : st2.idx = st.idx + 1 := by rw [rs.idx, ps.idx]
      refine ⟨by omega, by simp only [List.length_cons]; omega, ?_, r, ?_, b5⟩
      · intro i a b
        simp only [List.mem_append]
        by_cases hi : i = st.idx
        · left; rw [rs.evs, ps.idx, hi]; simp
        · right; exact b3 i (by omega) b
      · have : f - st.idx = (f - st2.idx) + 1 := by omega
        rw [this]; simpa using b4

/-- every response that was received is released, closed, or is the one returned -/
theorem run_disposed {env : Env} {cfg : Cfg} (chain : List Resp) :
    ∀ (st : St env.jar.σ), Inv st → (run env cfg st chain).out ≠ .pending →
      ∀ i, st.idx ≤ i → i < st.idx + (run env cfg st chain).sent.length →
        Ev.release i ∈ (run env cfg st chain).events ∨ Ev.close i ∈ (run env cfg st chain).events ∨
        ∃ h, (run env cfg st chain).out = .ok i h := by
  induction chain with
  | nil =>
    intro st hinv hne i h1 h2
    rcases run_view (cfg := cfg) st [] with ⟨e, hp, hres⟩ | ⟨st1, s, hp, hc, hres⟩ | ⟨st1, s, r, rest, out, evs, hp, hc, hr, hres⟩ | ⟨st1, s, r, rest, st2, evs, hp, hc, hr, hres⟩
    · rw [hres] at h2; simp at h2; omega
    · rw [hres] at hne; simp at hne
    · cases hc
    · cases hc
  | cons r0 rest0 ih =>
    intro st hinv hne i h1 h2
    rcases run_view (cfg := cfg) st (r0 :: rest0) with ⟨e, hp, hres⟩ | ⟨st1, s, hp, hc, hres⟩ | ⟨st1, s, r, rest, out, evs, hp, hc, hr, hres⟩ | ⟨st1, s, r, rest, st2, evs, hp, hc, hr, hres⟩
    · rw [hres] at h2; simp at h2; omega
    · cases hc
    · have ps := prepare_spec hinv hp
      rw [hres] at h2 ⊢
      simp at h2
      have hi : i = st1.idx := by rw [ps.idx]; omega
      subst hi
      simp only
      rcases react_stop_cases hr with ⟨_, h4, _⟩ | ⟨_, h4⟩
      · right; right; exact ⟨_, h4⟩
      · rcases h4 with ⟨_, h5⟩ | ⟨_, h5⟩ | ⟨_, h5, _⟩ | ⟨_, _, h5⟩ | ⟨_, _, h5⟩ | ⟨_, _, h5⟩
        · right; left; rw [h5]; simp
        · right; left; rw [h5]; simp
        · right; right; exact ⟨_, h5⟩
        · left; rw [h5]; simp
        · left; rw [h5]; simp
        · left; rw [h5]; simp
    · injection hc with h3 h4; subst h3; subst h4
      have ps := prepare_spec hinv hp
      have rs := react_spec ps.inv hr
      rw [hres] at h2 hne ⊢
      simp only [List.length_cons] at h2
      simp only at hne ⊢
      have hidx : st2.idx = st.idx + 1 := by rw [rs.idx, ps.idx]
      by_cases hi : i = st.idx
      · left; rw [rs.evs, ps.idx, hi]; simp
      · rcases ih st2 rs.inv hne i (by omega) (by omega) with h5 | h5 | h5
        · left; exact List.mem_append_right _ h5
        · right; left; exact List.mem_append_right _ h5
        · right; right; exact h5

/-- the cookie jar after the responses to the first requests have been fed to it -/
def jarAfter (env : Env) : env.jar.σ → List Sent → List Resp → env.jar.σ
  | j, s :: ss, r :: rs => jarAfter env (env.jar.update j s.url r.sc) ss rs
  | j, _, _ => j

theorem run_jar {env : Env} {cfg : Cfg} (chain : List Resp) :
    ∀ (st : St env.jar.σ) (k : Nat) (sk : Sent), Inv st → (run env cfg st chain).sent[k]? = some sk →
      sk.jarSel = env.jar.filter (jarAfter env st.jar ((run env cfg st chain).sent.take k) (chain.take k)) sk.url := by
  induction chain with
  | nil =>
    intro st k sk hinv h
    cases k with
    | zero =>
      obtain ⟨st1, hp⟩ := run_head h
      have ps := prepare_spec hinv hp
      simp [jarAfter, ps.sJar]
    | succ k' =>
      rcases run_view (cfg := cfg) st [] with ⟨e, hp, hres⟩ | ⟨st1, s, hp, hc, hres⟩ | ⟨st1, s, r, rest, out, evs, hp, hc, hr, hres⟩ | ⟨st1, s, r, rest, st2, evs, hp, hc, hr, hres⟩
      · rw [hres] at h; simp at h
      · rw [hres] at h; simp at h
      · cases hc
      · cases hc
  | cons r0 rest0 ih =>
    intro st k sk hinv h
    cases k with
    | zero =>
      obtain ⟨st1, hp⟩ := run_head h
      have ps := prepare_spec hinv hp
      simp [jarAfter, ps.sJar]
    | succ k' =>
      rcases run_view (cfg := cfg) st (r0 :: rest0) with ⟨e, hp, hres⟩ | ⟨st1, s, hp, hc, hres⟩ | ⟨st1, s, r, rest, out, evs, hp, hc, hr, hres⟩ | ⟨st1, s, r, rest, st2, evs, hp, hc, hr, hres⟩
      · rw [hres] at h; simp at h
      · cases hc
      · rw [hres] at h; simp at h
      · injection hc with h3 h4; subst h3; subst h4
        have ps := prepare_spec hinv hp
        have rs := react_spec ps.inv hr
        rw [hres] at h ⊢
        simp only [List.getElem?_cons_succ] at h
        have := ih st2 k' sk rs.inv h
        simp only [List.take_succ_cons, jarAfter]
        rw [this, rs.jar, ps.jar]

end Aio.C17

/-! ## the loop with connection faults (`runF`) -/
namespace Aio.C17
open Aio

theorem afterDrop_error {σ : Type} {st1 : St σ} {e : Err} (h : afterDrop st1 = .error e) : e = .disconnected := by
  unfold afterDrop at h
  split at h
  · cases h; rfl
  · split at h
    · cases h; rfl
    · cases h

theorem afterDrop_ok {σ : Type} {st1 st1' : St σ} (h : afterDrop st1 = .ok st1') :
    st1.retry = true ∧ st1' = { st1 with retry := false } := by
  unfold afterDrop at h
  split at h
  · cases h
  · next hr =>
    split at h
    · cases h
    · injection h with h; exact ⟨by simpa using hr, h.symm⟩

theorem afterDrop_inv {σ : Type} {st1 st1' : St σ} (hinv : Inv st1) (h : afterDrop st1 = .ok st1') : Inv st1' := by
  rw [(afterDrop_ok h).2]; exact ⟨hinv.hdrs, hinv.noJar, hinv.cookies, hinv.le⟩

/-- the ways one unfolding of `runF` can go -/
inductive RunFView (env : Env) (cfg : Cfg) (st : St env.jar.σ) (chain : List Reply) (res : Result) : Prop where
  | prepErr (e : Err) (hp : prepare env cfg st = .error e)
      (hres : res = { sent := [], events := [], out := .err e })
  | pending (st1 : St env.jar.σ) (s : Sent) (hp : prepare env cfg st = .ok (st1, s)) (hc : chain = [])
      (hres : res = { sent := [s], events := [], out := .pending })
  | dropErr (st1 : St env.jar.σ) (s : Sent) (rest : List Reply) (e : Err)
      (hp : prepare env cfg st = .ok (st1, s)) (hc : chain = .drop :: rest) (hd : afterDrop st1 = .error e)
      (hres : res = { sent := [s], events := [], out := .err e })
  | dropCont (st1 : St env.jar.σ) (s : Sent) (rest : List Reply) (st1' : St env.jar.σ)
      (hp : prepare env cfg st = .ok (st1, s)) (hc : chain = .drop :: rest) (hd : afterDrop st1 = .ok st1')
      (hres : res = { sent := s :: (runF env cfg st1' rest).sent, events := (runF env cfg st1' rest).events,
                      out := (runF env cfg st1' rest).out })
  | stop (st1 : St env.jar.σ) (s : Sent) (r : Resp) (rest : List Reply) (out : Outcome) (evs : List Ev)
      (hp : prepare env cfg st = .ok (st1, s)) (hc : chain = .resp r :: rest)
      (hr : react env cfg st1 s r = .stop out evs)
      (hres : res = { sent := [s], events := evs, out := out })
  | cont (st1 : St env.jar.σ) (s : Sent) (r : Resp) (rest : List Reply) (st2 : St env.jar.σ) (evs : List Ev)
      (hp : prepare env cfg st = .ok (st1, s)) (hc : chain = .resp r :: rest)
      (hr : react env cfg st1 s r = .continue st2 evs)
      (hres : res = { sent := s :: (runF env cfg st2 rest).sent, events := evs ++ (runF env cfg st2 rest).events,
                      out := (runF env cfg st2 rest).out })

theorem runF_view {env : Env} {cfg : Cfg} (st : St env.jar.σ) (chain : List Reply) :
    RunFView env cfg st chain (runF env cfg st chain) := by
  cases hp : prepare env cfg st with
  | error e =>
    refine .prepErr e hp ?_
    unfold runF; rw [hp]
  | ok pr =>
    obtain ⟨st1, s⟩ := pr
    cases chain with
    | nil =>
      refine .pending st1 s hp rfl ?_
      unfold runF; rw [hp]
    | cons x rest =>
      cases x with
      | drop =>
        cases hd : afterDrop st1 with
        | error e =>
          refine .dropErr st1 s rest e hp rfl hd ?_
          conv => lhs; unfold runF
          rw [hp]; simp only [hd]
        | ok st1' =>
          refine .dropCont st1 s rest st1' hp rfl hd ?_
          conv => lhs; unfold runF
          rw [hp]; simp only [hd]
      | resp r =>
        cases hr : react env cfg st1 s r with
        | stop out evs =>
          refine .stop st1 s r rest out evs hp rfl hr ?_
          conv => lhs; unfold runF
          rw [hp]; simp only [hr]
        | «continue» st2 evs =>
          refine .cont st1 s r rest st2 evs hp rfl hr ?_
          conv => lhs; unfold runF
          rw [hp]; simp only [hr]

end Aio.C17

namespace Aio.C17
open Aio

/-- without connection faults `runF` is `run` -/
theorem runF_resp_eq_run {env : Env} {cfg : Cfg} (chain : List Resp) :
    ∀ (st : St env.jar.σ), runF env cfg st (chain.map Reply.resp) = run env cfg st chain := by
  induction chain with
  | nil =>
    intro st
    rcases run_view (cfg := cfg) st [] with ⟨e, hp, hres⟩ | ⟨st1, s, hp, hc, hres⟩ | ⟨st1, s, r, rest, out, evs, hp, hc, hr, hres⟩ | ⟨st1, s, r, rest, st2, evs, hp, hc, hr, hres⟩
    · rw [hres]; simp only [List.map_nil]; unfold runF; rw [hp]
    · rw [hres]; simp only [List.map_nil]; unfold runF; rw [hp]
    · cases hc
    · cases hc
  | cons r0 rest0 ih =>
    intro st
    rcases run_view (cfg := cfg) st (r0 :: rest0) with ⟨e, hp, hres⟩ | ⟨st1, s, hp, hc, hres⟩ | ⟨st1, s, r, rest, out, evs, hp, hc, hr, hres⟩ | ⟨st1, s, r, rest, st2, evs, hp, hc, hr, hres⟩
    · rw [hres]; unfold runF; rw [hp]
    · cases hc
    · injection hc with h1 h2; subst h1; subst h2
      rw [hres]; simp only [List.map_cons]
      conv => lhs; unfold runF
      rw [hp]; simp only [hr]
    · injection hc with h1 h2; subst h1; subst h2
      rw [hres]; simp only [List.map_cons]
      conv => lhs; unfold runF
      rw [hp]; simp only [hr]
      rw [ih st2]

/-- requests on the wire under faults: the redirect budget plus the call's single resend -/
theorem runF_count {env : Env} {cfg : Cfg} (hmax : cfg.maxRedirects ≠ 0) (chain : List Reply) :
    ∀ (st : St env.jar.σ), Inv st → st.redirects < cfg.maxRedirects →
      (runF env cfg st chain).sent.length + st.redirects ≤ cfg.maxRedirects + (if st.retry then 1 else 0) := by
  induction chain with
  | nil =>
    intro st hinv hlt
    rcases runF_view (cfg := cfg) st [] with ⟨e, hp, hres⟩ | ⟨st1, s, hp, hc, hres⟩ | ⟨st1, s, rest, e, hp, hc, hd, hres⟩ | ⟨st1, s, rest, st1', hp, hc, hd, hres⟩ | ⟨st1, s, r, rest, out, evs, hp, hc, hr, hres⟩ | ⟨st1, s, r, rest, st2, evs, hp, hc, hr, hres⟩
    · rw [hres]; simp; omega
    · rw [hres]; simp; omega
    · cases hc
    · cases hc
    · cases hc
    · cases hc
  | cons x0 rest0 ih =>
    intro st hinv hlt
    rcases runF_view (cfg := cfg) st (x0 :: rest0) with ⟨e, hp, hres⟩ | ⟨st1, s, hp, hc, hres⟩ | ⟨st1, s, rest, e, hp, hc, hd, hres⟩ | ⟨st1, s, rest, st1', hp, hc, hd, hres⟩ | ⟨st1, s, r, rest, out, evs, hp, hc, hr, hres⟩ | ⟨st1, s, r, rest, st2, evs, hp, hc, hr, hres⟩
    · rw [hres]; simp; omega
    · cases hc
    · rw [hres]; simp; omega
    · injection hc with h1 h2; subst h1; subst h2
      have ps := prepare_spec hinv hp
      obtain ⟨hr1, hst⟩ := afterDrop_ok hd
      have hinv' := afterDrop_inv ps.inv hd
      have hred : st1'.redirects = st.redirects := by rw [hst]; exact ps.redirects
      have hret : st1'.retry = false := by rw [hst]
      have := ih st1' hinv' (by rw [hred]; exact hlt)
      rw [hres, hred, hret] at *
      have hsr : st.retry = true := by rw [← ps.retry]; exact hr1
      simp only [List.length_cons, hsr, if_true]
      simp at this
      omega
    · rw [hres]; simp; omega
    · injection hc with h1 h2; subst h1; subst h2
      have ps := prepare_spec hinv hp
      have rs := react_spec ps.inv hr
      rw [hres]
      have hb : st2.redirects < cfg.maxRedirects := by
        rcases rs.bound with hb | hb
        · exact absurd hb hmax
        · rw [rs.redirects]; exact hb
      have := ih st2 rs.inv hb
      rw [rs.redirects, ps.redirects, rs.retry, ps.retry] at this
      simp only [List.length_cons]
      omega

/-- number of `drop` replies among the first `n` replies -/
def dropsIn (chain : List Reply) (n : Nat) : Nat := ((chain.take n).filter (· == Reply.drop)).length

/-- drops consumed by a run: at most the allowance, plus the one that ends the call -/
theorem runF_drops {env : Env} {cfg : Cfg} (chain : List Reply) :
    ∀ (st : St env.jar.σ), Inv st →
      dropsIn chain (runF env cfg st chain).sent.length ≤
        (if st.retry then 1 else 0) + (if (runF env cfg st chain).out = .err .disconnected then 1 else 0) := by
  induction chain with
  | nil => intro st _; simp [dropsIn]
  | cons x0 rest0 ih =>
    intro st hinv
    rcases runF_view (cfg := cfg) st (x0 :: rest0) with ⟨e, hp, hres⟩ | ⟨st1, s, hp, hc, hres⟩ | ⟨st1, s, rest, e, hp, hc, hd, hres⟩ | ⟨st1, s, rest, st1', hp, hc, hd, hres⟩ | ⟨st1, s, r, rest, out, evs, hp, hc, hr, hres⟩ | ⟨st1, s, r, rest, st2, evs, hp, hc, hr, hres⟩
    · rw [hres]; simp [dropsIn]
    · cases hc
    · injection hc with h1 h2; subst h1; subst h2
      rw [hres, afterDrop_error hd]; simp [dropsIn]
    · injection hc with h1 h2; subst h1; subst h2
      have ps := prepare_spec hinv hp
      obtain ⟨hr1, hst⟩ := afterDrop_ok hd
      have hinv' := afterDrop_inv ps.inv hd
      have hret : st1'.retry = false := by rw [hst]
      have hsr : st.retry = true := by rw [← ps.retry]; exact hr1
      have := ih st1' hinv'
      rw [hret] at this
      rw [hres]
      simp only [dropsIn, List.length_cons, List.take_succ_cons, hsr, if_true] at this ⊢
      simp only [List.filter_cons, beq_self_eq_true, if_true, List.length_cons]
      simp at this
      omega
    · injection hc with h1 h2; subst h1; subst h2
      rw [hres]; simp [dropsIn]
    · injection hc with h1 h2; subst h1; subst h2
      have ps := prepare_spec hinv hp
      have rs := react_spec ps.inv hr
      have := ih st2 rs.inv
      rw [rs.retry, ps.retry] at this
      rw [hres]
      simp only [dropsIn, List.length_cons, List.take_succ_cons] at this ⊢
      have hne : (Reply.resp r == Reply.drop) = false := by
        rw [beq_eq_false_iff_ne]; intro h; cases h
      simp only [List.filter_cons, hne, Bool.false_eq_true, if_false]
      exact this

/-- the trace facts of `run_trace`, under connection faults -/
theorem runF_trace {env : Env} {cfg : Cfg} (chain : List Reply) :
    ∀ (st : St env.jar.σ), Inv st →
      (∀ sk ∈ (runF env cfg st chain).sent, SentOk st sk) ∧ Streaks (runF env cfg st chain).sent := by
  induction chain with
  | nil =>
    intro st hinv
    rcases runF_view (cfg := cfg) st [] with ⟨e, hp, hres⟩ | ⟨st1, s, hp, hc, hres⟩ | ⟨st1, s, rest, e, hp, hc, hd, hres⟩ | ⟨st1, s, rest, st1', hp, hc, hd, hres⟩ | ⟨st1, s, r, rest, out, evs, hp, hc, hr, hres⟩ | ⟨st1, s, r, rest, st2, evs, hp, hc, hr, hres⟩
    · rw [hres]; simp [Streaks]
    · rw [hres]
      have ps := prepare_spec hinv hp
      refine ⟨?_, streaks_single s⟩
      intro sk hk; simp at hk; subst hk; exact sentOk_head hinv ps
    · cases hc
    · cases hc
    · cases hc
    · cases hc
  | cons x0 rest0 ih =>
    intro st hinv
    have single : ∀ (st1 : St env.jar.σ) (s : Sent), prepare env cfg st = .ok (st1, s) →
        (∀ sk ∈ [s], SentOk st sk) ∧ Streaks [s] := by
      intro st1 s hp
      have ps := prepare_spec hinv hp
      refine ⟨?_, streaks_single s⟩
      intro sk hk; simp at hk; subst hk; exact sentOk_head hinv ps
    -- both continuing cases have the same shape: a successor state `st'` whose run is appended to `s`
    have step : ∀ (st1 st' : St env.jar.σ) (s : Sent) (rest : List Reply), prepare env cfg st = .ok (st1, s) → Inv st' →
        st'.idx = st.idx ∨ st'.idx = st.idx + 1 →
        (st'.idx = st.idx → st'.since = st.since ∧ st'.url.origin = s.url.origin) →
        (st'.idx = st.idx + 1 → (st'.since = st.since ∧ st'.url.origin = s.url.origin) ∨ st'.since = st.idx + 1) →
        (∀ sk ∈ (runF env cfg st' rest).sent, SentOk st' sk) → Streaks (runF env cfg st' rest).sent →
        (∀ sk ∈ s :: (runF env cfg st' rest).sent, SentOk st sk) ∧ Streaks (s :: (runF env cfg st' rest).sent) := by
      intro st1 st' s rest hp hinv' hidx hsame hnext ihOk ihStreak
      have ps := prepare_spec hinv hp
      have hs : SentOk st s := sentOk_head hinv ps
      have rebase : ∀ sk ∈ (runF env cfg st' rest).sent, SentOk st sk ∧ st.idx ≤ sk.idx ∧
          ((sk.since = st.since ∧ sk.url.origin = s.url.origin) ∨ st.idx < sk.since) := by
        intro sk hk
        obtain ⟨a, b, c, d, e⟩ := ihOk sk hk
        have hle : st.idx ≤ sk.idx := by omega
        have hcase : (sk.since = st.since ∧ sk.url.origin = s.url.origin) ∨ st.idx < sk.since := by
          rcases e with ⟨e1, e2⟩ | e
          · rcases hidx with hi | hi
            · obtain ⟨f1, f2⟩ := hsame hi
              left; exact ⟨by rw [e1, f1], by rw [e2, f2]⟩
            · rcases hnext hi with ⟨f1, f2⟩ | f
              · left; exact ⟨by rw [e1, f1], by rw [e2, f2]⟩
              · right; rw [e1, f]; omega
          · right; omega
        refine ⟨⟨a, b, hle, d, ?_⟩, hle, hcase⟩
        rcases hcase with ⟨h1, h2⟩ | h1
        · left; exact ⟨h1, by rw [h2, ps.sOrigin]⟩
        · right; exact h1
      refine ⟨?_, ?_⟩
      · intro sk hk
        rcases List.mem_cons.mp hk with h1 | h1
        · subst h1; exact hs
        · exact (rebase sk h1).1
      · intro sj hj sk hk hle1 hle2
        rcases List.mem_cons.mp hj with hj' | hj' <;> rcases List.mem_cons.mp hk with hk' | hk'
        · subst hj'; subst hk'; rfl
        · subst hj'
          obtain ⟨_, _, hcase⟩ := rebase sk hk'
          rcases hcase with ⟨_, h2⟩ | h1
          · exact h2.symm
          · rw [ps.sIdx] at hle1; omega
        · subst hk'
          obtain ⟨_, hge, hcase⟩ := rebase sj hj'
          rcases hcase with ⟨_, h2⟩ | h1
          · exact h2
          · -- sj.since > st.idx but sj.idx ≤ sk.idx = st.idx, impossible as sj.since ≤ sj.idx
            obtain ⟨⟨_, _, _, hd, _⟩, _, _⟩ := rebase sj hj'
            rw [ps.sIdx] at hle2; omega
        · exact ihStreak sj hj' sk hk' hle1 hle2
    rcases runF_view (cfg := cfg) st (x0 :: rest0) with ⟨e, hp, hres⟩ | ⟨st1, s, hp, hc, hres⟩ | ⟨st1, s, rest, e, hp, hc, hd, hres⟩ | ⟨st1, s, rest, st1', hp, hc, hd, hres⟩ | ⟨st1, s, r, rest, out, evs, hp, hc, hr, hres⟩ | ⟨st1, s, r, rest, st2, evs, hp, hc, hr, hres⟩
    · rw [hres]; simp [Streaks]
    · cases hc
    · rw [hres]; exact single st1 s hp
    · injection hc with h1 h2; subst h1; subst h2
      have ps := prepare_spec hinv hp
      obtain ⟨_, hst⟩ := afterDrop_ok hd
      have hinv' := afterDrop_inv ps.inv hd
      obtain ⟨ihOk, ihStreak⟩ := ih st1' hinv'
      rw [hres]
      have hi : st1'.idx = st.idx := by rw [hst]; exact ps.idx
      refine step st1 st1' s rest0 hp hinv' (Or.inl hi) ?_ ?_ ihOk ihStreak
      · intro _; rw [hst]; exact ⟨ps.since, by rw [← ps.url]⟩
      · intro h; omega
    · rw [hres]; exact single st1 s hp
    · injection hc with h1 h2; subst h1; subst h2
      have ps := prepare_spec hinv hp
      have rs := react_spec ps.inv hr
      obtain ⟨ihOk, ihStreak⟩ := ih st2 rs.inv
      rw [hres]
      have hi : st2.idx = st.idx + 1 := by rw [rs.idx, ps.idx]
      refine step st1 st2 s rest0 hp rs.inv (Or.inr hi) ?_ ?_ ihOk ihStreak
      · intro h; omega
      · intro _
        rcases rs.streak with ⟨f1, f2⟩ | f
        · left; exact ⟨by rw [f1, ps.since], f2⟩
        · right; rw [f, ps.idx]

theorem initF_inv (env : Env) (cfg : Cfg) (url : Url) (params : Option Str) (method : Str) (defaults headers : List (Str × Str))
    (cookies : Option (List (Str × Str))) (data : Option Body) (jar0 : env.jar.σ) :
    Inv (initF env cfg url params method defaults headers cookies data jar0) := by
  have h := init_inv env url params method defaults headers cookies data jar0
  exact ⟨h.hdrs, h.noJar, h.cookies, h.le⟩

end Aio.C17

/-! ## netrc credentials belong to the host of the request that carries them -/
namespace Aio.C17
open Aio

def AllH (P : Hdr → Prop) (h : List Hdr) : Prop := ∀ x ∈ h, P x

theorem AllH.setHdr {P : Hdr → Prop} {h : List Hdr} {x : Hdr} (ht : AllH P h) (hx : P x) : AllH P (setHdr x h) := by
  intro y hy
  rcases mem_setHdr hy with h1 | h1
  · subst h1; exact hx
  · exact ht y h1

theorem AllH.popFirst {P : Hdr → Prop} {h : List Hdr} (n : Str) (ht : AllH P h) : AllH P (popFirst n h) :=
  fun y hy => ht y (mem_of_mem_popFirst hy)

theorem AllH.autoHeaders {P : Hdr → Prop} {h : List Hdr} (hnil : ∀ x : Hdr, x.provs = [] → P x) (ht : AllH P h) :
    AllH P (autoHeaders h) := by
  intro y hy
  rcases mem_autoHeaders hy with h1 | h1
  · exact ht y h1
  · exact hnil y h1

theorem AllH.bodyHeaders {P : Hdr → Prop} {h : List Hdr} (hnil : ∀ x : Hdr, x.provs = [] → P x) (m : Str) (d : Option Body)
    (ht : AllH P h) : AllH P (bodyHeaders m d h).1 := by
  unfold C17.bodyHeaders
  split
  · split
    · exact ht.setHdr (hnil _ rfl)
    · exact ht
  · next b =>
    have h1 : AllH P (if !has CONTENT_LENGTH h then
        if b.sized then (C17.setHdr { name := CONTENT_LENGTH, value := (toDec b.data.length).map (·.toNat) } h, false)
        else (h, true) else (h, false)).1 := by
      split
      · split
        · exact ht.setHdr (hnil _ rfl)
        · exact ht
      · exact ht
    generalize (if !has CONTENT_LENGTH h then
        if b.sized then (C17.setHdr { name := CONTENT_LENGTH, value := (toDec b.data.length).map (·.toNat) } h, false)
        else (h, true) else (h, false)) = pr at h1
    obtain ⟨h', ch⟩ := pr
    simp only at h1 ⊢
    split
    · split
      · exact h1
      · exact h1.setHdr (hnil _ rfl)
    · exact h1

theorem AllH.teHeaders {P : Hdr → Prop} {h h' : List Hdr} {m : Str} {d : Option Body} {ch : Bool}
    (hnil : ∀ x : Hdr, x.provs = [] → P x) (ht : AllH P h) (he : teHeaders m d ch h = .ok h') : AllH P h' := by
  rcases teHeaders_cases he with h1 | h1
  · subst h1; exact ht
  · subst h1; exact ht.setHdr (hnil _ rfl)

theorem AllH.defaultCtype {P : Hdr → Prop} {h : List Hdr} (hnil : ∀ x : Hdr, x.provs = [] → P x) (m : Str) (ht : AllH P h) :
    AllH P (defaultCtype m h) := by
  unfold C17.defaultCtype
  split
  · exact ht.setHdr (hnil _ rfl)
  · exact ht

/-- a header with a netrc provenance is an `Authorization` header whose value is the netrc entry of `host` -/
def NetrcP (env : Env) (host : Str) (x : Hdr) : Prop :=
  ∀ k, Prov.netrc k ∈ x.provs → ciEq x.name AUTHORIZATION = true ∧ env.netrc host = some x.value

theorem netrcP_nil (env : Env) (host : Str) (x : Hdr) (h : x.provs = []) : NetrcP env host x := by
  intro k hk; rw [h] at hk; simp at hk

theorem not_auth_of_ciEq {a n : Str} (hn : ciEq a n = true) (hne : ciEq n AUTHORIZATION = false) :
    ciEq a AUTHORIZATION = false := by
  simp [ciEq] at *
  rw [hn]; exact hne

theorem applyAuth_netrc {env : Env} {cfg : Cfg} {st : St env.jar.σ} {hs : List Hdr}
    (ht : AllH (NetrcP env st.url.origin.host) st.headers) (h : applyAuth env cfg st = .ok hs) :
    AllH (NetrcP env st.url.origin.host) hs := by
  unfold applyAuth at h
  split at h
  · split at h
    · cases h
    · injection h with h; subst h
      apply ht.setHdr
      intro k hk; simp at hk
  · split at h
    · split at h
      · next a ha =>
        injection h with h; subst h
        apply ht.setHdr
        intro k _
        exact ⟨(by decide : ciEq AUTHORIZATION AUTHORIZATION = true), ha⟩
      · injection h with h; subst h; exact ht
    · injection h with h; subst h; exact ht

theorem prepare_netrc {env : Env} {cfg : Cfg} {st st1 : St env.jar.σ} {s : Sent}
    (ht : AllH (NetrcP env st.url.origin.host) st.headers) (h : prepare env cfg st = .ok (st1, s)) :
    AllH (NetrcP env st.url.origin.host) s.headers ∧ AllH (NetrcP env st.url.origin.host) st1.headers ∧
      s.url.origin = st.url.origin ∧ st1.url.origin = st.url.origin := by
  have hnil := netrcP_nil env st.url.origin.host
  unfold prepare at h
  simp only at h
  split at h
  · cases h
  · split at h
    · cases h
    · next hs hauth =>
      have t0 := applyAuth_netrc ht hauth
      have tp : AllH (NetrcP env st.url.origin.host) (popFirst HOST hs) := t0.popFirst HOST
      have thost : NetrcP env st.url.origin.host (hostHeader { st.url with cred := none } hs) := by
        unfold hostHeader
        split
        · next y hy =>
          intro k hk
          have ⟨hm, hn⟩ := getFirst_mem hy
          have := (t0 y hm k hk).1
          have hno := not_auth_of_ciEq hn (by decide : ciEq HOST AUTHORIZATION = false)
          rw [hno] at this; cases this
        · exact hnil _ rfl
      have t1 : AllH (NetrcP env st.url.origin.host)
          (autoHeaders (hostHeader { st.url with cred := none } hs :: popFirst HOST hs)) := by
        apply AllH.autoHeaders hnil
        intro y hy
        rcases List.mem_cons.mp hy with h1 | h1
        · subst h1; exact thost
        · exact tp y h1
      have t2 : AllH (NetrcP env st.url.origin.host)
          (cookieHeaders env (autoHeaders (hostHeader { st.url with cred := none } hs :: popFirst HOST hs))
            (allCookies env st { st.url with cred := none })) := by
        unfold cookieHeaders
        split
        · exact t1
        · intro y hy
          rcases List.mem_append.mp hy with h1 | h1
          · exact t1 y (mem_popAll.mp h1).1
          · simp at h1; subst h1
            intro k hk
            exfalso
            simp only [List.mem_flatMap] at hk
            obtain ⟨c, hc, hkc⟩ := hk
            unfold mergedCookies at hc
            split at hc
            · simp at hc
            · rw [mem_sortCookies] at hc
              rcases mem_loadCookies hc with h2 | h2
              · rcases mem_loadCookies h2 with h3 | h3
                · simp at h3
                · unfold headerCookies at h3
                  split at h3
                  · next z hz =>
                    simp only [List.mem_map] at h3
                    obtain ⟨nv, _, rfl⟩ := h3
                    have ⟨hm, hn⟩ := getFirst_mem hz
                    have := (t1 z hm k hkc).1
                    have hno := not_auth_of_ciEq hn (by decide : ciEq COOKIE AUTHORIZATION = false)
                    rw [hno] at this; cases this
                  · simp at h3
              · rcases mem_loadCookies h2 with h3 | h3
                · simp only [jarCookies, List.mem_map] at h3
                  obtain ⟨nv, _, rfl⟩ := h3
                  simp at hkc
                · unfold reqCookies at h3
                  split at h3
                  · simp only [List.mem_map] at h3
                    obtain ⟨nv, _, rfl⟩ := h3
                    simp at hkc
                  · simp at h3
      have t3 := AllH.bodyHeaders hnil st.method st.data t2
      generalize hb : bodyHeaders st.method st.data _ = pr at h t3
      obtain ⟨h3, ch⟩ := pr
      simp only at h t3
      split at h
      · cases h
      · next h4 hte =>
        have t4 := AllH.teHeaders hnil t3 hte
        have t5 := AllH.defaultCtype hnil st.method t4
        split at h
        · cases h
        · next body hbody =>
          injection h with h
          injection h with h1 h2
          subst h1; subst h2
          exact ⟨t5, tp, rfl, rfl⟩

theorem react_netrc {env : Env} {cfg : Cfg} {st1 st2 : St env.jar.σ} {s : Sent} {r : Resp} {evs : List Ev}
    (ht : AllH (NetrcP env s.url.origin.host) st1.headers) (h : react env cfg st1 s r = .continue st2 evs) :
    AllH (NetrcP env st2.url.origin.host) st2.headers := by
  unfold react at h
  simp only at h
  split at h
  · split at h
    · cases h
    · split at h
      · cases h
      · split at h
        · cases h
        · cases h
        · cases h
        · cases h
        · next target hloc =>
          injection h with h1 h2
          subst h1
          by_cases hc : (s.url.origin != target.origin) = true
          · simp only [hc, if_true]
            intro x hx k hk
            have hm := mem_stripSecrets hx
            have hsec := hm.2
            have hx' : x ∈ st1.headers := by
              have := hm.1
              split at this
              · exact mem_dropContentLength this
              · exact this
            have := (ht x hx' k hk).1
            simp [isSecretName, this] at hsec
          · have hc' : (s.url.origin != target.origin) = false := by simpa using hc
            have heq : target.origin = s.url.origin := by
              simp at hc'; exact hc'.symm
            simp only [hc', Bool.false_eq_true, if_false]
            intro x hx
            show NetrcP env target.origin.host x
            rw [heq]
            split at hx
            · exact ht x (mem_dropContentLength hx)
            · exact ht x hx
  · cases h

/-- along the whole (fault-aware) run, a netrc-provenance header sent to a host is that host's netrc entry -/
theorem runF_netrc {env : Env} {cfg : Cfg} (chain : List Reply) :
    ∀ (st : St env.jar.σ), AllH (NetrcP env st.url.origin.host) st.headers →
      ∀ sk ∈ (runF env cfg st chain).sent, AllH (NetrcP env sk.url.origin.host) sk.headers := by
  induction chain with
  | nil =>
    intro st ht sk hk
    rcases runF_view (cfg := cfg) st [] with ⟨e, hp, hres⟩ | ⟨st1, s, hp, hc, hres⟩ | ⟨st1, s, rest, e, hp, hc, hd, hres⟩ | ⟨st1, s, rest, st1', hp, hc, hd, hres⟩ | ⟨st1, s, r, rest, out, evs, hp, hc, hr, hres⟩ | ⟨st1, s, r, rest, st2, evs, hp, hc, hr, hres⟩
    · rw [hres] at hk; simp at hk
    · rw [hres] at hk; simp at hk; subst hk
      obtain ⟨a, _, c, _⟩ := prepare_netrc ht hp
      rw [c]; exact a
    · cases hc
    · cases hc
    · cases hc
    · cases hc
  | cons x0 rest0 ih =>
    intro st ht sk hk
    rcases runF_view (cfg := cfg) st (x0 :: rest0) with ⟨e, hp, hres⟩ | ⟨st1, s, hp, hc, hres⟩ | ⟨st1, s, rest, e, hp, hc, hd, hres⟩ | ⟨st1, s, rest, st1', hp, hc, hd, hres⟩ | ⟨st1, s, r, rest, out, evs, hp, hc, hr, hres⟩ | ⟨st1, s, r, rest, st2, evs, hp, hc, hr, hres⟩
    · rw [hres] at hk; simp at hk
    · cases hc
    · obtain ⟨a, _, c, _⟩ := prepare_netrc ht hp
      rw [hres] at hk; simp at hk; subst hk
      rw [c]; exact a
    · injection hc with h1 h2; subst h1; subst h2
      obtain ⟨a, b, c, d⟩ := prepare_netrc ht hp
      rw [hres] at hk
      rcases List.mem_cons.mp hk with h3 | h3
      · subst h3; rw [c]; exact a
      · have hst := (afterDrop_ok hd).2
        refine ih st1' ?_ sk h3
        rw [hst]; show AllH (NetrcP env st1.url.origin.host) st1.headers
        rw [d]; exact b
    · obtain ⟨a, _, c, _⟩ := prepare_netrc ht hp
      rw [hres] at hk; simp at hk; subst hk
      rw [c]; exact a
    · injection hc with h1 h2; subst h1; subst h2
      obtain ⟨a, b, c, d⟩ := prepare_netrc ht hp
      rw [hres] at hk
      rcases List.mem_cons.mp hk with h3 | h3
      · subst h3; rw [c]; exact a
      · refine ih st2 (react_netrc ?_ hr) sk h3
        rw [c]; exact b

theorem initF_netrc (env : Env) (cfg : Cfg) (url : Url) (params : Option Str) (method : Str) (defaults headers : List (Str × Str))
    (cookies : Option (List (Str × Str))) (data : Option Body) (jar0 : env.jar.σ) (host : Str) :
    AllH (NetrcP env host) (initF env cfg url params method defaults headers cookies data jar0).headers := by
  intro x hx k hk
  have : x.provs = [.caller] := by
    rcases mem_prepareHeaders hx with h1 | h1 <;>
    · simp only [List.mem_map] at h1
      obtain ⟨nv, _, rfl⟩ := h1
      rfl
  rw [this] at hk; simp at hk

end Aio.C17
