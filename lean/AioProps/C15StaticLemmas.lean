import AioModel.C15Static
/-!
# C15 — lemmas about the abstract file system walk (`posixpath.realpath`)
-/
namespace Aio.C15
open Aio

def isLink : Node → Bool
  | .link _ => true
  | _ => false

/-- no component of `p` is a symbolic link: `p` names its own real location -/
def Resolved (fs : Fs) (p : Path) : Prop :=
  ∀ i, i < p.length → isLink (fs.lstat (p.take (i + 1))) = false

def normalName (n : Str) : Bool := n != [] && n != DOT && n != DOTDOT && !hasNul n

/-- every name is a real directory entry name: not empty, `.`, `..`, no NUL -/
def NormalPath (p : Path) : Prop := ∀ n ∈ p, normalName n = true

theorem Resolved_nil (fs : Fs) : Resolved fs [] := by intro i h; simp at h

theorem Resolved_dropLast (fs : Fs) (p : Path) (h : Resolved fs p) : Resolved fs p.dropLast := by
  intro i hi
  simp at hi
  have := h i (by omega)
  rw [List.dropLast_eq_take, List.take_take]
  have hm : min (i + 1) (p.length - 1) = i + 1 := by omega
  rw [hm]; exact this

theorem Resolved_snoc (fs : Fs) (p : Path) (n : Str) (h : Resolved fs p)
    (hn : isLink (fs.lstat (p ++ [n])) = false) : Resolved fs (p ++ [n]) := by
  intro i hi
  simp at hi
  by_cases hlt : i < p.length
  · rw [List.take_append_of_le_length (by omega)]
    exact h i hlt
  · have : i + 1 = (p ++ [n]).length := by simp; omega
    rw [this, List.take_length]; exact hn

theorem NormalPath_dropLast (p : Path) (h : NormalPath p) : NormalPath p.dropLast := by
  intro n hn
  exact h n (List.dropLast_subset p hn)

theorem walk_resolved_aux (fs : Fs) (fuel : Nat) (act : List Path) (cur : Path) (rest : List Item) :
    ∀ q, Resolved fs cur → NormalPath cur → walk fs fuel act cur rest = .ok q →
      Resolved fs q ∧ NormalPath q := by
  fun_induction walk fs fuel act cur rest <;> intro q hres hnorm hw
  case case1 => cases hw; exact ⟨hres, hnorm⟩
  case case2 ih => exact ih q hres hnorm hw
  case case3 ih => exact ih q hres hnorm hw
  case case4 ih => exact ih q (Resolved_dropLast fs _ hres) (NormalPath_dropLast _ hnorm) hw
  case case5 => cases hw
  case case6 => cases hw
  case case7 => cases hw
  case case8 act cur n rest h1 h2 h3 target hx hc fuel ih =>
    by_cases hs : target.head? = some SLASH
    · simp only [hs, if_true, dite_true] at ih hw
      exact ih q (Resolved_nil fs) (by intro n hn; simp at hn) hw
    · simp only [hs, if_false, dite_false] at ih hw
      exact ih q hres hnorm hw
  case case9 fuel act cur n rest h1 h2 h3 hx ih =>
    refine ih q (Resolved_snoc fs _ _ hres ?_) ?_ hw
    · cases hl : fs.lstat (cur ++ [n]) <;> simp [isLink]
      exact hx _ hl
    · intro m hm
      simp at hm
      rcases hm with hm | rfl
      · exact hnorm m hm
      · simp only [not_or] at h1
        simp [normalName, h1.1, h1.2, h2, h3]

/-- **`realpath` output is a real location.** -/
theorem follow_resolved (fs : Fs) (fuel : Nat) (p q : Path) (h : follow fs fuel p = .ok q) :
    Resolved fs q ∧ NormalPath q :=
  walk_resolved_aux fs fuel [] [] _ q (Resolved_nil fs) (by intro n hn; simp at hn) h

/-- walking an already resolved path changes nothing -/
theorem walk_of_resolved (fs : Fs) (fuel : Nat) (act : List Path) :
    ∀ (rest : List Str) (cur : Path), Resolved fs (cur ++ rest) → NormalPath rest →
      walk fs fuel act cur (rest.map .name) = .ok (cur ++ rest) := by
  intro rest
  induction rest with
  | nil => intro cur _ _; simp [walk]
  | cons n t ih =>
    intro cur hres hnorm
    have hn := hnorm n (by simp)
    simp [normalName] at hn
    obtain ⟨⟨⟨hn1, hn2⟩, hn3⟩, hn4⟩ := hn
    have hl : isLink (fs.lstat (cur ++ [n])) = false := by
      have := hres cur.length (by simp)
      have e : (cur ++ n :: t).take (cur.length + 1) = cur ++ [n] := by
        rw [show cur ++ n :: t = (cur ++ [n]) ++ t by simp, List.take_append_of_le_length (by simp)]
        rw [show cur.length + 1 = (cur ++ [n]).length by simp, List.take_length]
      rw [e] at this
      exact this
    have hstep : walk fs fuel act cur (Item.name n :: t.map .name) = walk fs fuel act (cur ++ [n]) (t.map .name) := by
      rw [walk]
      simp [hn1, hn2, hn3, hn4]
      split
      · next target hx => rw [hx] at hl; simp [isLink] at hl
      · rfl
    simp only [List.map_cons]
    rw [hstep, ih (cur ++ [n]) (by simpa using hres) (fun m hm => hnorm m (by simp [hm]))]
    simp

theorem follow_of_resolved (fs : Fs) (fuel : Nat) (p : Path) (h : Resolved fs p) (hn : NormalPath p) :
    follow fs fuel p = .ok p := by
  have := walk_of_resolved fs fuel [] p [] (by simpa using h) hn
  simpa [follow] using this

theorem resolvePath_inl_not_file (fix : Bool) (fs : Fs) (fuel : Nat) (cfg : Cfg) (filename : Str) (o : Out)
    (h : resolvePathG fix fs fuel cfg filename = .inl o) : ∀ p id enc, o ≠ .file p id enc := by
  intro p id enc ho
  subst ho
  unfold resolvePathG at h
  simp only at h
  repeat' split at h
  all_goals simp at h

theorem resolvePath_inr_nofollow (fix : Bool) (fs : Fs) (fuel : Nat) (cfg : Cfg) (filename : Str) (p' : Path)
    (hf : cfg.follow = false) (h : resolvePathG fix fs fuel cfg filename = .inr p') :
    realpath fs fuel (cfg.root ++ pathSegs filename) = .ok p' ∧ cfg.root.isPrefixOf p' = true ∧
      statF fs fuel p' ≠ .dir ∧ (fix = true → isFixpoint fs fuel p' = true) := by
  unfold resolvePathG at h
  simp only [hf] at h
  repeat' split at h
  all_goals cases h
  rename_i heq hnd
  simp only [Bool.false_eq_true, if_false] at heq
  split at heq
  · next q hq =>
    split at heq
    · cases heq
    · next hfx =>
      split at heq
      · next hpre =>
        cases heq
        refine ⟨hq, hpre, hnd, ?_⟩
        intro hfix
        simpa [hfix] using hfx
      · cases heq
  · cases heq

theorem resolvePath_inr_follow (fix : Bool) (fs : Fs) (fuel : Nat) (cfg : Cfg) (filename : Str) (p' : Path)
    (hf : cfg.follow = true) (h : resolvePathG fix fs fuel cfg filename = .inr p') :
    cfg.root.isPrefixOf (lexNorm (cfg.root ++ pathSegs filename)) = true ∧
      realpath fs fuel (lexNorm (cfg.root ++ pathSegs filename)) = .ok p' := by
  unfold resolvePathG at h
  simp only [hf] at h
  repeat' split at h
  all_goals cases h
  rename_i heq hnd
  simp only [if_true] at heq
  split at heq
  · next hpre =>
    split at heq
    · next q hq => cases heq; exact ⟨hpre, hq⟩
    · cases heq
  · cases heq

theorem resolvePath_listing (fix : Bool) (fs : Fs) (fuel : Nat) (cfg : Cfg) (filename : Str) (p : Path)
    (h : resolvePathG fix fs fuel cfg filename = .inl (.listing p)) :
    cfg.showIndex = true ∧ cfg.root.isPrefixOf p = true ∧ statF fs fuel p = .dir := by
  unfold resolvePathG at h
  simp only at h
  repeat' split at h
  all_goals cases h
  exact ⟨by assumption, by assumption, by assumption⟩

theorem realpath_noloop (fs : Fs) (fuel : Nat) (p q : Path) (hnl : ∀ pp, follow fs fuel p ≠ .loop pp)
    (h : realpath fs fuel p = .ok q) : follow fs fuel p = .ok q := by
  unfold realpath at h
  split at h
  · next q' hq => cases h; exact hq
  · cases h
  · cases h
  · next pp hpp => exact absurd hpp (hnl pp)

/-- a path that `Path.resolve()` maps to itself was not cut short by a symlink loop -/
theorem realpath_fixpoint (fs : Fs) (fuel : Nat) (p : Path) (h : realpath fs fuel p = .ok p) :
    follow fs fuel p = .ok p := by
  unfold realpath at h
  split at h
  · next q hq => cases h; exact hq
  · cases h
  · cases h
  · next pp hpp =>
    split at h
    · next q hq =>
      injection h with h
      rw [h] at hq
      rw [hpp] at hq
      cases hq
    · cases h
    · cases h

theorem isFixpoint_follow (fs : Fs) (fuel : Nat) (p : Path) (h : isFixpoint fs fuel p = true) :
    follow fs fuel p = .ok p := by
  unfold isFixpoint at h
  split at h
  · next p2 hp2 =>
    have : p2 = p := by simpa using h
    subst this
    exact realpath_fixpoint fs fuel _ hp2
  · cases h

theorem statF_of_resolved (fs : Fs) (fuel : Nat) (p : Path) (h : Resolved fs p) (hn : NormalPath p)
    (hd : fs.lstat p = .dir) : statF fs fuel p = .dir := by
  simp [statF, follow_of_resolved fs fuel p h hn, hd]


theorem sibling_some (fs : Fs) (fuel : Nat) (p : Path) (ae : Str) :
    ∀ (exts : List (Str × Str)) (q : Path) (id : Nat) (coding : Str),
      sibling fs fuel p ae exts = some (q, id, coding) →
      ∃ ext d, follow fs fuel p.dropLast = .ok d ∧ osLstat fs fuel (withExt p ext) = .file id ∧
        q = withExt (d ++ [p.getLast?.getD []]) ext := by
  intro exts
  induction exts with
  | nil => intro q id coding h; simp [sibling] at h
  | cons e t ih =>
    intro q id coding h
    obtain ⟨ext, cod⟩ := e
    simp only [sibling] at h
    split at h
    · split at h
      · next id' d hl hf =>
        simp at h
        exact ⟨ext, d, hf, by rw [hl, h.2.1], h.1.symm⟩
      · exact ih q id coding h
    · exact ih q id coding h

theorem fileTarget_file (fs : Fs) (fuel : Nat) (p' : Path) (ae : Str) (p : Path) (id : Nat) (enc : Option Str)
    (h : fileTarget fs fuel p' ae = .file p id enc) :
    (∃ ext d, follow fs fuel p'.dropLast = .ok d ∧ osLstat fs fuel (withExt p' ext) = .file id ∧
        p = withExt (d ++ [p'.getLast?.getD []]) ext) ∨
    (follow fs fuel p' = .ok p ∧ fs.lstat p = .file id ∧ enc = none) := by
  unfold fileTarget at h
  split at h
  · next q id' coding hs =>
    left
    simp at h
    obtain ⟨ext, d, h1, h2, h3⟩ := sibling_some fs fuel p' ae _ q id' coding hs
    exact ⟨ext, d, h1, by rw [← h.2.1]; exact h2, by rw [← h.1]; exact h3⟩
  · right
    split at h
    · next q hq =>
      split at h
      · next id' hl => simp at h; obtain ⟨rfl, rfl, rfl⟩ := h; exact ⟨hq, hl, rfl⟩
      all_goals simp at h
    · simp at h

/-- the serving half of `confined`: a resolved, normal `p'` under the root that is not a directory -/
theorem fileTarget_confined (fs : Fs) (fuel : Nat) (root p' : Path) (ae : Str) (p : Path) (id : Nat)
    (enc : Option Str) (hroot : fs.lstat root = .dir) (hpre : root <+: p')
    (hres : Resolved fs p') (hnorm : NormalPath p') (hnd : statF fs fuel p' ≠ .dir)
    (h : fileTarget fs fuel p' ae = .file p id enc) :
    root <+: p ∧ Resolved fs p ∧ fs.lstat p = .file id := by
  have hne : p' ≠ root := by
    intro he; subst he
    exact hnd (statF_of_resolved fs fuel _ hres hnorm hroot)
  rcases fileTarget_file fs fuel p' ae p id enc h with ⟨ext, d, hd, hl, hp⟩ | ⟨hf, hl, _⟩
  · rcases List.eq_nil_or_concat p' with hnil | ⟨init, last, hcat⟩
    · subst hnil
      have : root = [] := List.prefix_nil.mp hpre
      exact absurd this.symm hne
    · rw [List.concat_eq_append] at hcat
      subst hcat
      have hri : Resolved fs init := by
        have := Resolved_dropLast fs _ hres
        rwa [List.dropLast_concat] at this
      have hni : NormalPath init := fun m hm => hnorm m (by simp [hm])
      have hfi : follow fs fuel init = .ok init := follow_of_resolved fs fuel init hri hni
      simp only [List.dropLast_concat] at hd
      have hdd : init = d := by
        rw [hfi] at hd; injection hd with hd
      subst hdd
      simp [withExt] at hp hl
      subst hp
      have hlst : fs.lstat (init ++ [last ++ ext]) = .file id := by
        simp [osLstat, hfi] at hl
        split at hl
        · cases hl
        · exact hl
      have hpi : root <+: init := by
        rcases List.prefix_concat_iff.mp hpre with he | hp
        · exact absurd he.symm hne
        · exact hp
      refine ⟨hpi.trans (List.prefix_append _ _), ?_, hlst⟩
      exact Resolved_snoc fs init _ hri (by rw [hlst]; rfl)
  · rw [follow_of_resolved fs fuel p' hres hnorm] at hf
    cases hf
    exact ⟨hpre, hres, hl⟩

end Aio.C15
