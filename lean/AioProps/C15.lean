import AioModel.C15
import AioModel.C15Static
namespace Aio.C15
end Aio.C15
