import AioProps.C15Lemmas
/-!
# C15 — property theorems (static files: confinement and exact ranges)

Models: `AioModel/C15.lean` (= `BaseRequest.http_range`, `FileResponse._make_response`,
`_prepare_open_file`, `_sendfile_fallback`) and `AioModel/C15Static.lean`
(= `StaticResource.resolve/_handle/_resolve_path_to_response`, `FileResponse` file selection,
over an abstract file system).  Every statement quantifies over all header strings, all file
contents and sizes, all chunk sizes, all file systems `fs : Fs` and all request file names.
-/
namespace Aio.C15
open Aio

/-! ## Part 1 — ranges -/

/-- The regular expression literal found in `BaseRequest.http_range` *now* (re-extracted on
every run) is the one `matchRange` transcribes, and it is applied with `re.ASCII`. -/
theorem range_pattern_is_modelled :
    Gen.C15.rangePattern = "^bytes=(\\d*)-(\\d*)$".toList.map Char.toNat ∧
    Gen.C15.rangeAsciiFlag = true := by decide

/-- `http_range` refines the RFC 9110 §14.1.1 grammar: a well-formed single byte range whose
numbers `int()` accepts is turned into exactly its slice. -/
theorem httpRange_refines_spec (s : Str) (sp : RangeSpec) (hlen : s.length ≤ Gen.C15.maxStrDigits)
    (hnl : s.getLast? ≠ some 10) (h : parseSpec s = some sp) :
    httpRange (some s) = .ok (sliceOf sp) := by
  rw [httpRange_eq_spec s hnl hlen, h]

/-- … and everything the grammar does not derive is refused with `ValueError` (which
`_prepare_open_file` turns into 416).  (A value ending in `\n` is excluded: Python's `$` would
match before it; header values cannot contain a newline.) -/
theorem httpRange_rejects_malformed (s : Str) (hlen : s.length ≤ Gen.C15.maxStrDigits)
    (hnl : s.getLast? ≠ some 10) (h : parseSpec s = none) :
    httpRange (some s) = .error () := by
  rw [httpRange_eq_spec s hnl hlen, h]

example : parseSpec (ascii "bytes=2-4" |>.map (·.toNat)) = some (.fromTo 2 4) := by decide
example : parseSpec (ascii "bytes=2-4,6-7" |>.map (·.toNat)) = none := by decide

/-- **Status, Content-Range, Content-Length and the bytes to send are consistent.**  Whatever
the request headers, whenever `_prepare_open_file` answers 206 there are byte positions
`first ≤ last < size` such that `Content-Range` is `bytes first-last/size`, `Content-Length`
is `last-first+1`, and `_sendfile` is asked for exactly `offset = first`, `count = last-first+1`
(for every Range value: no restriction on length, trailing newline, or If-Range). -/
theorem range_consistent (isHead iro : Bool) (rng : Option Str) (size : Nat)
    (h : (prepareOpenFile isHead iro rng size).status = 206) :
    ∃ first last, first ≤ last ∧ last < size ∧
      prepareOpenFile isHead iro rng size = partialPlan isHead size first last := by
  cases iro with
  | false => rw [prepare_stale] at h; simp [fullPlan] at h
  | true =>
    cases hr : httpRange rng with
    | error e => cases e; rw [prepare_error _ _ _ hr] at h; simp [unsatPlan] at h
    | ok sl =>
      rcases httpRange_shape rng sl hr with ⟨rfl, _⟩ | ⟨n, rfl⟩ | ⟨f, rfl⟩ | ⟨f, l, hfl, rfl⟩
      · rw [prepare_no_range] at h; simp [fullPlan] at h
      · by_cases hn : 0 < n
        · rw [prepare_suffix _ _ _ _ hn hr] at h ⊢
          by_cases hs : size = 0
          · simp [hs, unsatPlan] at h
          · simp only [hs, if_false]
            exact ⟨_, _, by omega, by omega, rfl⟩
        · have : n = 0 := by omega
          subst this
          rw [prepare_suffix_zero _ _ _ hr] at h ⊢
          by_cases hs : size = 0
          · simp [hs, unsatPlan] at h
          · simp only [hs, if_false]
            exact ⟨_, _, by omega, by omega, rfl⟩
      · rw [prepare_fromOn _ _ _ _ hr] at h ⊢
        by_cases hlt : f < size
        · simp only [hlt, if_true]
          exact ⟨_, _, by omega, by omega, rfl⟩
        · simp [hlt, unsatPlan] at h
      · rw [prepare_fromTo _ _ _ _ _ hfl hr] at h ⊢
        by_cases hlt : f < size
        · simp only [hlt, if_true]
          exact ⟨_, _, by omega, by omega, rfl⟩
        · simp [hlt, unsatPlan] at h

example : (prepareOpenFile false true (some ((ascii "bytes=2-4").map (·.toNat))) 10).status = 206 := by decide

/- Full statement (FALSE on the unchanged code, see `f15_suffix_zero_served_whole`):
   ∀ s sp, parseSpec s = some sp → prepareOpenFile isHead true (some s) size =
     match rfcSlice sp size with | some (f, l) => partialPlan isHead size f l | none => unsatPlan size -/
/-- **The slice served is the slice requested (RFC 9110 §14.1.2)** — for every well-formed
single byte range except the zero-length suffix `bytes=-0` (finding F15): a satisfiable
range is answered 206 with exactly the positions `rfcSlice` selects (last-byte-pos clamped to
the file, suffix longer than the file = whole file), an unsatisfiable one 416 with
`Content-Range: bytes */size`.  Missing for the full statement: `sp ≠ .suffix 0`. -/
theorem range_is_requested_slice_partial (isHead : Bool) (s : Str) (size : Nat) (sp : RangeSpec)
    (hlen : s.length ≤ Gen.C15.maxStrDigits) (hnl : s.getLast? ≠ some 10)
    (hsp : parseSpec s = some sp) (hz : sp ≠ .suffix 0) :
    prepareOpenFile isHead true (some s) size =
      (match rfcSlice sp size with
       | some (f, l) => partialPlan isHead size f l
       | none => unsatPlan size) := by
  have hr := httpRange_refines_spec s sp hlen hnl hsp
  cases sp with
  | fromTo f l =>
    have hfl := parseSpec_fromTo_le s f l hsp
    rw [prepare_fromTo _ _ _ _ _ hfl hr]
    by_cases hlt : f < size <;> simp [rfcSlice, hlt]
  | fromOn f =>
    rw [prepare_fromOn _ _ _ _ hr]
    by_cases hlt : f < size <;> simp [rfcSlice, hlt]
  | suffix n =>
    have hn : 0 < n := by
      rcases Nat.eq_zero_or_pos n with h0 | h0
      · subst h0; exact absurd rfl hz
      · exact h0
    rw [prepare_suffix _ _ _ _ hn hr]
    by_cases hs : size = 0
    · simp [rfcSlice, hs]
    · have : ¬ n = 0 := by omega
      simp [rfcSlice, hs, this]

example : parseSpec ((ascii "bytes=-3").map (·.toNat)) = some (.suffix 3) ∧ RangeSpec.suffix 3 ≠ .suffix 0 := by decide

/-- **Finding F15 (counterexample to the full statement).**  `Range: bytes=-0` on a 10-byte
file: RFC 9110 calls a zero-length suffix unsatisfiable, the code answers 206 with the whole
file (`Content-Range: bytes 0-9/10`), because `start = -0 = 0` no longer looks like a suffix. -/
theorem f15_suffix_zero_served_whole :
    parseSpec ((ascii "bytes=-0").map (·.toNat)) = some (.suffix 0) ∧
    rfcSlice (.suffix 0) 10 = none ∧
    prepareOpenFile false true (some ((ascii "bytes=-0").map (·.toNat))) 10 = partialPlan false 10 0 9 := by
  decide

/-- **416 exactly when the request cannot be satisfied.**  With a passing (or absent) If-Range,
the answer is 416 iff a Range header is present and either is malformed or names no byte of
the file — stated for header values the grammar lemma covers, with the F15 case (`bytes=-0`
on a non-empty file, answered 206) spelled out on the right-hand side. -/
theorem unsatisfiable_416_iff (isHead iro : Bool) (rng : Option Str) (size : Nat)
    (hlen : ∀ s, rng = some s → s.length ≤ Gen.C15.maxStrDigits ∧ s.getLast? ≠ some 10) :
    (prepareOpenFile isHead iro rng size).status = 416 ↔
      iro = true ∧ ∃ s, rng = some s ∧
        (match parseSpec s with
         | none => True
         | some sp => rfcSlice sp size = none ∧ (sp = .suffix 0 → size = 0)) := by
  cases iro with
  | false => rw [prepare_stale]; simp [fullPlan]
  | true =>
    cases rng with
    | none => rw [prepare_no_range]; simp [fullPlan]
    | some s =>
      obtain ⟨hl, hnl⟩ := hlen s rfl
      simp only [true_and, Option.some.injEq, exists_eq_left']
      cases hsp : parseSpec s with
      | none =>
        rw [prepare_error _ _ _ (httpRange_rejects_malformed s hl hnl hsp)]
        simp [unsatPlan]
      | some sp =>
        by_cases hz : sp = .suffix 0
        · subst hz
          have hr := httpRange_refines_spec s _ hl hnl hsp
          rw [prepare_suffix_zero _ _ _ hr]
          by_cases hs : size = 0 <;> simp [hs, unsatPlan, partialPlan, rfcSlice]
        · rw [range_is_requested_slice_partial isHead s size sp hl hnl hsp hz]
          cases hsl : rfcSlice sp size with
          | none => simp [unsatPlan, hz, hsl]
          | some fl => simp [partialPlan, hsl]

/-- **200 with the whole file when no range applies**: no Range header, or an If-Range date
older than the file (then the Range header is not even parsed). -/
theorem full_200_when_no_range_or_stale (isHead iro : Bool) (rng : Option Str) (size : Nat)
    (h : iro = false ∨ rng = none) :
    prepareOpenFile isHead iro rng size = fullPlan isHead size := by
  rcases h with rfl | rfl
  · exact prepare_stale _ _ _
  · exact prepare_no_range _ _ _

/-- **The chunked read loop sends exactly `count` bytes from `offset`**: for every positive
`chunk_size`, `_sendfile_fallback` hands the writer `file[offset:][:count]`, however the reads
fall. -/
theorem sendLoop_exact (cs : Nat) (hcs : 0 < cs) (file : Bytes) (count : Nat) :
    sendLoop cs (count + 1) file count = file.take count :=
  sendLoop_take cs hcs _ _ _ (by omega)

/-- **The body of a 206 is the announced slice, of a 200 the whole file.** -/
theorem body_is_slice (cs : Nat) (hcs : 0 < cs) (content : Bytes) (first last : Nat) :
    sendBytes cs content (partialPlan false content.length first last)
        = (content.drop first).take (last - first + 1) ∧
    sendBytes cs content (fullPlan false content.length) = content :=
  ⟨sendBytes_partial cs hcs content first last, sendBytes_full cs hcs content⟩

/-- **Every GET answer of `FileResponse.prepare` on a regular file is self-consistent**, for
all conditional headers, Range values, contents and chunk sizes: it is one of
* 200, no Content-Range, `Content-Length = size`, body = the file;
* 206, `Content-Range: bytes first-last/size` with `first ≤ last < size`,
  `Content-Length = last-first+1`, body = `file[first .. last]` exactly;
* 416, `Content-Range: bytes */size`, no body;
* 304 or 412, no Content-Range, no body. -/
theorem response_consistent (cs : Nat) (hcs : 0 < cs) (cur : Str) (mt : Nat) (h : CondHdrs)
    (rng : Option Str) (content : Bytes) :
    let r := fileResponse cs false cur mt h rng content
    (r.status = 200 ∧ r.contentRange = .absent ∧ r.contentLength = some (content.length : Int) ∧
        r.body = content) ∨
    (r.status = 206 ∧ ∃ first last, first ≤ last ∧ last < content.length ∧
        r.contentRange = .range first last content.length ∧
        r.contentLength = some ((last - first + 1 : Nat) : Int) ∧
        r.body = (content.drop first).take (last - first + 1)) ∨
    (r.status = 416 ∧ r.contentRange = .unsat content.length ∧ r.body = []) ∨
    ((r.status = 304 ∨ r.status = 412) ∧ r.contentRange = .absent ∧ r.body = []) := by
  intro r
  show _ ∨ _ ∨ _ ∨ _
  simp only [r, fileResponse]
  cases makeResponse cur mt h with
  | precondFailed => right; right; right; simp [Gen.C15.stPrecondFailed]
  | notModified => right; right; right; simp [Gen.C15.stNotModified]
  | send =>
    rcases prepare_cases false (ifRangeOk mt h) rng content.length with hp | hp | ⟨f, l, hfl, hl, hp⟩
    · left
      simp only [hp, sendBytes_full cs hcs]
      simp [fullPlan]
    · right; right; left
      simp only [hp]
      simp [unsatPlan, sendBytes]
    · right; left
      simp only [hp, sendBytes_partial cs hcs]
      exact ⟨rfl, f, l, hfl, hl, rfl, rfl, rfl⟩

/-- a HEAD request never gets a body, whatever the headers -/
theorem head_has_no_body (cs : Nat) (cur : Str) (mt : Nat) (h : CondHdrs) (rng : Option Str)
    (content : Bytes) : (fileResponse cs true cur mt h rng content).body = [] := by
  simp only [fileResponse]
  cases makeResponse cur mt h <;> simp [sendBytes_head]

/-- **Conditional requests follow RFC 9110 §13.2.2.**  The cascade in `_make_response` is the
specified precedence: If-Match (strong comparison) first; If-Unmodified-Since only without
If-Match; then If-None-Match (weak comparison); If-Modified-Since only without If-None-Match. -/
theorem conditional_precedence (cur : Str) (mt : Nat) (h : CondHdrs) :
    makeResponse cur mt h =
      rfcPrecondition (h.ifMatch.map (fun ts => etagMatch cur ts false))
        (h.unmodSince.map (fun t => decide ((mt : Int) ≤ t * nsPerSec)))
        (h.ifNoneMatch.map (fun ts => etagMatch cur ts true))
        (h.modSince.map (fun t => decide ((mt : Int) ≤ t * nsPerSec))) := by
  rcases h with ⟨im, inm, um, ms, ir⟩
  cases im <;> cases inm <;> cases um <;> cases ms <;>
    simp [makeResponse, rfcPrecondition] <;>
    (repeat' split) <;> simp_all <;> omega

end Aio.C15
