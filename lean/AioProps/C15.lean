import AioProps.C15Lemmas
/-!
# C15 — property theorems (static files: confinement and exact ranges)

Models: `AioModel/C15.lean` (= `BaseRequest.http_range`, `FileResponse._make_response`,
`_prepare_open_file`, `_sendfile_fallback`) and `AioModel/C15Static.lean`
(= `StaticResource.resolve/_handle/_resolve_path_to_response`, `FileResponse` file selection,
over an abstract file system).  Every statement quantifies over all header strings, all file
contents and sizes, all chunk sizes, all file systems `fs : Fs` and all request file names.
-/
namespace Aio.C15
open Aio

/-! ## Part 1 — ranges -/

/-- The regular expression literal found in `BaseRequest.http_range` *now* (re-extracted on
every run) is the one `matchRange` transcribes, and it is applied with `re.ASCII`. -/
theorem range_pattern_is_modelled :
    Gen.C15.rangePattern = "^bytes=(\\d*)-(\\d*)$".toList.map Char.toNat ∧
    Gen.C15.rangeAsciiFlag = true := by decide

/-- `http_range` refines the RFC 9110 §14.1.1 grammar: a well-formed single byte range whose
numbers `int()` accepts is turned into exactly its slice. -/
theorem httpRange_refines_spec (s : Str) (sp : RangeSpec) (hlen : s.length ≤ Gen.C15.maxStrDigits)
    (hnl : s.getLast? ≠ some 10) (h : parseSpec s = some sp) :
    httpRange (some s) = .ok (sliceOf sp) := by
  rw [httpRange_eq_spec s hnl hlen, h]

/-- … and everything the grammar does not derive is refused with `ValueError` (which
`_prepare_open_file` turns into 416).  (A value ending in `\n` is excluded: Python's `$` would
match before it; header values cannot contain a newline.) -/
theorem httpRange_rejects_malformed (s : Str) (hlen : s.length ≤ Gen.C15.maxStrDigits)
    (hnl : s.getLast? ≠ some 10) (h : parseSpec s = none) :
    httpRange (some s) = .error () := by
  rw [httpRange_eq_spec s hnl hlen, h]

example : parseSpec (ascii "bytes=2-4" |>.map (·.toNat)) = some (.fromTo 2 4) := by decide
example : parseSpec (ascii "bytes=2-4,6-7" |>.map (·.toNat)) = none := by decide

end Aio.C15
