import AioProps.C15Lemmas
import AioProps.C15StaticLemmas
/-!
# C15 — property theorems (static files: confinement and exact ranges)

Models: `AioModel/C15.lean` (= `BaseRequest.http_range`, `FileResponse._make_response`,
`_prepare_open_file`, `_sendfile_fallback`) and `AioModel/C15Static.lean`
(= `StaticResource.resolve/_handle/_resolve_path_to_response`, `FileResponse` file selection,
over an abstract file system).  Every statement quantifies over all header strings, all file
contents and sizes, all chunk sizes, all file systems `fs : Fs` and all request file names.
-/
namespace Aio.C15
open Aio

/-! ## Part 1 — ranges -/

/-- The regular expression literal found in `BaseRequest.http_range` *now* (re-extracted on
every run) is the one `matchRange` transcribes, and it is applied with `re.ASCII`. -/
theorem range_pattern_is_modelled :
    Gen.C15.rangePattern = "^bytes=(\\d*)-(\\d*)$".toList.map Char.toNat ∧
    Gen.C15.rangeAsciiFlag = true := by decide

/-- `http_range` refines the RFC 9110 §14.1.1 grammar: a well-formed single byte range whose
numbers `int()` accepts is turned into exactly its slice. -/
theorem httpRange_refines_spec (s : Str) (sp : RangeSpec) (hlen : s.length ≤ Gen.C15.maxStrDigits)
    (hnl : s.getLast? ≠ some 10) (h : parseSpec s = some sp) :
    httpRange (some s) = .ok (sliceOf sp) := by
  rw [httpRange_eq_spec s hnl hlen, h]

/-- … and everything the grammar does not derive is refused with `ValueError` (which
`_prepare_open_file` turns into 416).  (A value ending in `\n` is excluded: Python's `$` would
match before it; header values cannot contain a newline.) -/
theorem httpRange_rejects_malformed (s : Str) (hlen : s.length ≤ Gen.C15.maxStrDigits)
    (hnl : s.getLast? ≠ some 10) (h : parseSpec s = none) :
    httpRange (some s) = .error () := by
  rw [httpRange_eq_spec s hnl hlen, h]

example : parseSpec (ascii "bytes=2-4" |>.map (·.toNat)) = some (.fromTo 2 4) := by decide
example : parseSpec (ascii "bytes=2-4,6-7" |>.map (·.toNat)) = none := by decide

/-- **Status, Content-Range, Content-Length and the bytes to send are consistent.**  Whatever
the request headers, whenever `_prepare_open_file` answers 206 there are byte positions
`first ≤ last < size` such that `Content-Range` is `bytes first-last/size`, `Content-Length`
is `last-first+1`, and `_sendfile` is asked for exactly `offset = first`, `count = last-first+1`
(for every Range value: no restriction on length, trailing newline, or If-Range). -/
theorem range_consistent (isHead iro : Bool) (rng : Option Str) (size : Nat)
    (h : (prepareOpenFile isHead iro rng size).status = 206) :
    ∃ first last, first ≤ last ∧ last < size ∧
      prepareOpenFile isHead iro rng size = partialPlan isHead size first last := by
  cases iro with
  | false => rw [prepare_stale] at h; simp [fullPlan] at h
  | true =>
    cases hr : httpRange rng with
    | error e => cases e; rw [prepare_error _ _ _ hr] at h; simp [unsatPlan] at h
    | ok sl =>
      rcases httpRange_shape rng sl hr with ⟨rfl, _⟩ | ⟨n, rfl⟩ | ⟨f, rfl⟩ | ⟨f, l, hfl, rfl⟩
      · rw [prepare_no_range] at h; simp [fullPlan] at h
      · by_cases hn : 0 < n
        · rw [prepare_suffix _ _ _ _ hn hr] at h ⊢
          by_cases hs : size = 0
          · simp [hs, unsatPlan] at h
          · simp only [hs, if_false]
            exact ⟨_, _, by omega, by omega, rfl⟩
        · have : n = 0 := by omega
          subst this
          rw [prepare_suffix_zero _ _ _ hr] at h ⊢
          by_cases hs : size = 0
          · simp [hs, unsatPlan] at h
          · simp only [hs, if_false]
            exact ⟨_, _, by omega, by omega, rfl⟩
      · rw [prepare_fromOn _ _ _ _ hr] at h ⊢
        by_cases hlt : f < size
        · simp only [hlt, if_true]
          exact ⟨_, _, by omega, by omega, rfl⟩
        · simp [hlt, unsatPlan] at h
      · rw [prepare_fromTo _ _ _ _ _ hfl hr] at h ⊢
        by_cases hlt : f < size
        · simp only [hlt, if_true]
          exact ⟨_, _, by omega, by omega, rfl⟩
        · simp [hlt, unsatPlan] at h

example : (prepareOpenFile false true (some ((ascii "bytes=2-4").map (·.toNat))) 10).status = 206 := by decide

/- Full statement (FALSE on the unchanged code, see `f15_suffix_zero_served_whole`):
   ∀ s sp, parseSpec s = some sp → prepareOpenFile isHead true (some s) size =
     match rfcSlice sp size with | some (f, l) => partialPlan isHead size f l | none => unsatPlan size -/
/-- **The slice served is the slice requested (RFC 9110 §14.1.2)** — for every well-formed
single byte range except the zero-length suffix `bytes=-0` (finding F15): a satisfiable
range is answered 206 with exactly the positions `rfcSlice` selects (last-byte-pos clamped to
the file, suffix longer than the file = whole file), an unsatisfiable one 416 with
`Content-Range: bytes */size`.  Missing for the full statement: `sp ≠ .suffix 0`. -/
theorem range_is_requested_slice_partial (isHead : Bool) (s : Str) (size : Nat) (sp : RangeSpec)
    (hlen : s.length ≤ Gen.C15.maxStrDigits) (hnl : s.getLast? ≠ some 10)
    (hsp : parseSpec s = some sp) (hz : sp ≠ .suffix 0) :
    prepareOpenFile isHead true (some s) size =
      (match rfcSlice sp size with
       | some (f, l) => partialPlan isHead size f l
       | none => unsatPlan size) := by
  have hr := httpRange_refines_spec s sp hlen hnl hsp
  cases sp with
  | fromTo f l =>
    have hfl := parseSpec_fromTo_le s f l hsp
    rw [prepare_fromTo _ _ _ _ _ hfl hr]
    by_cases hlt : f < size <;> simp [rfcSlice, hlt]
  | fromOn f =>
    rw [prepare_fromOn _ _ _ _ hr]
    by_cases hlt : f < size <;> simp [rfcSlice, hlt]
  | suffix n =>
    have hn : 0 < n := by
      rcases Nat.eq_zero_or_pos n with h0 | h0
      · subst h0; exact absurd rfl hz
      · exact h0
    rw [prepare_suffix _ _ _ _ hn hr]
    by_cases hs : size = 0
    · simp [rfcSlice, hs]
    · have : ¬ n = 0 := by omega
      simp [rfcSlice, hs, this]

example : parseSpec ((ascii "bytes=-3").map (·.toNat)) = some (.suffix 3) ∧ RangeSpec.suffix 3 ≠ .suffix 0 := by decide

/-- **Finding F15 (counterexample to the full statement).**  `Range: bytes=-0` on a 10-byte
file: RFC 9110 calls a zero-length suffix unsatisfiable, the code answers 206 with the whole
file (`Content-Range: bytes 0-9/10`), because `start = -0 = 0` no longer looks like a suffix. -/
theorem f15_suffix_zero_served_whole :
    parseSpec ((ascii "bytes=-0").map (·.toNat)) = some (.suffix 0) ∧
    rfcSlice (.suffix 0) 10 = none ∧
    prepareOpenFile false true (some ((ascii "bytes=-0").map (·.toNat))) 10 = partialPlan false 10 0 9 := by
  decide

/-- **416 exactly when the request cannot be satisfied.**  With a passing (or absent) If-Range,
the answer is 416 iff a Range header is present and either is malformed or names no byte of
the file — stated for header values the grammar lemma covers, with the F15 case (`bytes=-0`
on a non-empty file, answered 206) spelled out on the right-hand side. -/
theorem unsatisfiable_416_iff (isHead iro : Bool) (rng : Option Str) (size : Nat)
    (hlen : ∀ s, rng = some s → s.length ≤ Gen.C15.maxStrDigits ∧ s.getLast? ≠ some 10) :
    (prepareOpenFile isHead iro rng size).status = 416 ↔
      iro = true ∧ ∃ s, rng = some s ∧
        (match parseSpec s with
         | none => True
         | some sp => rfcSlice sp size = none ∧ (sp = .suffix 0 → size = 0)) := by
  cases iro with
  | false => rw [prepare_stale]; simp [fullPlan]
  | true =>
    cases rng with
    | none => rw [prepare_no_range]; simp [fullPlan]
    | some s =>
      obtain ⟨hl, hnl⟩ := hlen s rfl
      simp only [true_and, Option.some.injEq, exists_eq_left']
      cases hsp : parseSpec s with
      | none =>
        rw [prepare_error _ _ _ (httpRange_rejects_malformed s hl hnl hsp)]
        simp [unsatPlan]
      | some sp =>
        by_cases hz : sp = .suffix 0
        · subst hz
          have hr := httpRange_refines_spec s _ hl hnl hsp
          rw [prepare_suffix_zero _ _ _ hr]
          by_cases hs : size = 0 <;> simp [hs, unsatPlan, partialPlan, rfcSlice]
        · rw [range_is_requested_slice_partial isHead s size sp hl hnl hsp hz]
          cases hsl : rfcSlice sp size with
          | none => simp [unsatPlan, hz, hsl]
          | some fl => simp [partialPlan, hsl]

/-- **200 with the whole file when no range applies**: no Range header, or an If-Range date
older than the file (then the Range header is not even parsed). -/
theorem full_200_when_no_range_or_stale (isHead iro : Bool) (rng : Option Str) (size : Nat)
    (h : iro = false ∨ rng = none) :
    prepareOpenFile isHead iro rng size = fullPlan isHead size := by
  rcases h with rfl | rfl
  · exact prepare_stale _ _ _
  · exact prepare_no_range _ _ _

/-- **The chunked read loop sends exactly `count` bytes from `offset`**: for every positive
`chunk_size`, `_sendfile_fallback` hands the writer `file[offset:][:count]`, however the reads
fall. -/
theorem sendLoop_exact (cs : Nat) (hcs : 0 < cs) (file : Bytes) (count : Nat) :
    sendLoop cs (count + 1) file count = file.take count :=
  sendLoop_take cs hcs _ _ _ (by omega)

/-- **The body of a 206 is the announced slice, of a 200 the whole file.** -/
theorem body_is_slice (cs : Nat) (hcs : 0 < cs) (content : Bytes) (first last : Nat) :
    sendBytes cs content (partialPlan false content.length first last)
        = (content.drop first).take (last - first + 1) ∧
    sendBytes cs content (fullPlan false content.length) = content :=
  ⟨sendBytes_partial cs hcs content first last, sendBytes_full cs hcs content⟩

/-- **Every GET answer of `FileResponse.prepare` on a regular file is self-consistent**, for
all conditional headers, Range values, contents and chunk sizes: it is one of
* 200, no Content-Range, `Content-Length = size`, body = the file;
* 206, `Content-Range: bytes first-last/size` with `first ≤ last < size`,
  `Content-Length = last-first+1`, body = `file[first .. last]` exactly;
* 416, `Content-Range: bytes */size`, no body;
* 304 or 412, no Content-Range, no body. -/
theorem response_consistent (cs : Nat) (hcs : 0 < cs) (cur : Str) (mt : Nat) (h : CondHdrs)
    (rng : Option Str) (content : Bytes) :
    let r := fileResponse cs false cur mt h rng content
    (r.status = 200 ∧ r.contentRange = .absent ∧ r.contentLength = some (content.length : Int) ∧
        r.body = content) ∨
    (r.status = 206 ∧ ∃ first last, first ≤ last ∧ last < content.length ∧
        r.contentRange = .range first last content.length ∧
        r.contentLength = some ((last - first + 1 : Nat) : Int) ∧
        r.body = (content.drop first).take (last - first + 1)) ∨
    (r.status = 416 ∧ r.contentRange = .unsat content.length ∧ r.body = []) ∨
    ((r.status = 304 ∨ r.status = 412) ∧ r.contentRange = .absent ∧ r.body = []) := by
  intro r
  show _ ∨ _ ∨ _ ∨ _
  simp only [r, fileResponse]
  cases makeResponse cur mt h with
  | precondFailed => right; right; right; simp [Gen.C15.stPrecondFailed]
  | notModified => right; right; right; simp [Gen.C15.stNotModified]
  | send =>
    rcases prepare_cases false (ifRangeOk mt h) rng content.length with hp | hp | ⟨f, l, hfl, hl, hp⟩
    · left
      simp only [hp, sendBytes_full cs hcs]
      simp [fullPlan]
    · right; right; left
      simp only [hp]
      simp [unsatPlan, sendBytes]
    · right; left
      simp only [hp, sendBytes_partial cs hcs]
      exact ⟨rfl, f, l, hfl, hl, rfl, rfl, rfl⟩

/-- a HEAD request never gets a body, whatever the headers -/
theorem head_has_no_body (cs : Nat) (cur : Str) (mt : Nat) (h : CondHdrs) (rng : Option Str)
    (content : Bytes) : (fileResponse cs true cur mt h rng content).body = [] := by
  simp only [fileResponse]
  cases makeResponse cur mt h <;> simp [sendBytes_head]

/-- **Entity-tag comparison, for every list** (RFC 9110 §8.8.3.2): `_etag_match` succeeds iff
the header is the single `*`, or some listed tag carries the current opaque value and — for
the strong comparison of If-Match — is itself not weak.  In particular a list that mixes other
strong tags with the current tag in its weak form `W/"…"` does **not** match strongly, in
whatever order, while it does match weakly (If-None-Match). -/
theorem etagMatch_iff (cur : Str) (tags : List ETag) (weak : Bool) :
    etagMatch cur tags weak = true ↔
      (∃ t, tags = [t] ∧ t.value = [42]) ∨ ∃ t ∈ tags, (weak = true ∨ t.weak = false) ∧ t.value = cur := by
  unfold etagMatch
  constructor
  · intro h
    rcases Bool.or_eq_true_iff.mp h with h1 | h2
    · left
      split at h1
      · next t => exact ⟨t, rfl, by simpa using h1⟩
      · cases h1
    · right
      obtain ⟨t, ht, hp⟩ := List.any_eq_true.mp h2
      simp at hp
      refine ⟨t, ht, ?_, hp.2⟩
      cases weak <;> simp_all
  · rintro (⟨t, rfl, hv⟩ | ⟨t, ht, hw, hv⟩)
    · simp [hv]
    · apply Bool.or_eq_true_iff.mpr
      right
      apply List.any_eq_true.mpr
      refine ⟨t, ht, ?_⟩
      rcases hw with hw | hw <;> simp [hw, hv]

/-- a strong tag for something else plus the current tag in weak form: If-Match fails (412),
If-None-Match hits (304) — both orders -/
theorem mixed_list_strong_fails (cur other : Str) (h : other ≠ cur) :
    etagMatch cur [⟨false, other⟩, ⟨true, cur⟩] false = false ∧
    etagMatch cur [⟨true, cur⟩, ⟨false, other⟩] false = false ∧
    etagMatch cur [⟨false, other⟩, ⟨true, cur⟩] true = true ∧
    etagMatch cur [⟨true, cur⟩, ⟨false, other⟩] true = true := by
  simp [etagMatch, h]

/-- **Conditional requests follow RFC 9110 §13.2.2.**  The cascade in `_make_response` is the
specified precedence: If-Match (strong comparison) first; If-Unmodified-Since only without
If-Match; then If-None-Match (weak comparison); If-Modified-Since only without If-None-Match. -/
theorem conditional_precedence (cur : Str) (mt : Nat) (h : CondHdrs) :
    makeResponse cur mt h =
      rfcPrecondition (h.ifMatch.map (fun ts => etagMatch cur ts false))
        (h.unmodSince.map (fun t => decide ((mt : Int) ≤ t * nsPerSec)))
        (h.ifNoneMatch.map (fun ts => etagMatch cur ts true))
        (h.modSince.map (fun t => decide ((mt : Int) ≤ t * nsPerSec))) := by
  rcases h with ⟨im, inm, um, ms, ir⟩
  cases im <;> cases inm <;> cases um <;> cases ms <;>
    simp [makeResponse, rfcPrecondition] <;>
    (repeat' split) <;> simp_all <;> omega

/-! ## Part 1b — the file changes between `stat()` and `open()` -/

/-- the source (re-read on every run) still replaces the path `stat()` by the `fstat()` of the
opened descriptor unconditionally -/
theorem fstat_always_adopted : Gen.C15.fstatAlwaysAdopted = true := by decide

/-- **One version of the file.**  Let the file be rewritten in place, replaced or deleted between
`_make_response`'s `stat()` and its `open()`: whatever version `open()` finds (any content, any
size, any mtime — unrelated to what `stat()` saw), a GET answer is self-consistent *with respect
to that opened version*: 200 with its length and all its bytes; 206 with `first ≤ last <` its
size, `Content-Range: first-last/`its size and exactly its bytes `first..last`; 416 with `*/`its
size; or 304/412 decided from the earlier validators; a vanished file gives 404 with no body.
Nothing in status, Content-Range, Content-Length or body depends on the stale `stat()`. -/
theorem race_response_consistent (cs : Nat) (hcs : 0 < cs) (curPre : Str) (mtPre sizePre : Nat) (h : CondHdrs)
    (rng : Option Str) (atOpen : Option (Bytes × Nat)) :
    let r := fileResponseRace true cs false curPre mtPre sizePre h rng atOpen
    (match atOpen with
     | none => r.status = 404 ∧ r.body = []
     | some (content, _) =>
        (r.status = 200 ∧ r.contentRange = .absent ∧ r.contentLength = some (content.length : Int) ∧
          r.body = content) ∨
        (r.status = 206 ∧ ∃ first last, first ≤ last ∧ last < content.length ∧
          r.contentRange = .range first last content.length ∧
          r.contentLength = some ((last - first + 1 : Nat) : Int) ∧
          r.body = (content.drop first).take (last - first + 1)) ∨
        (r.status = 416 ∧ r.contentRange = .unsat content.length ∧ r.body = [])) ∨
    ((r.status = 304 ∨ r.status = 412) ∧ r.contentRange = .absent ∧ r.body = []) := by
  intro r
  simp only [r, fileResponseRace]
  cases makeResponse curPre mtPre h with
  | precondFailed => right; simp [Gen.C15.stPrecondFailed]
  | notModified => right; simp [Gen.C15.stNotModified]
  | send =>
    left
    cases atOpen with
    | none => simp [Gen.C15.stNotFound]
    | some v =>
      obtain ⟨content, mt⟩ := v
      simp only [if_true]
      rcases prepare_cases false (ifRangeOk mt h) rng content.length with hp | hp | ⟨f, l, hfl, hl, hp⟩
      · left
        simp only [hp, sendBytes_full cs hcs]
        simp [fullPlan]
      · right; right
        simp only [hp]
        simp [unsatPlan, sendBytes]
      · right; left
        simp only [hp, sendBytes_partial cs hcs]
        exact ⟨rfl, f, l, hfl, hl, rfl, rfl, rfl⟩

/-- **Why the fstat must be adopted (counterexample for a model that keeps the stale stat).**
A 10-byte file rewritten in place to 4 bytes inside the window: with the stale size the answer
announces `Content-Length: 10` and carries 4 bytes; `bytes=-2` is answered
`Content-Range: bytes 8-9/10` with no byte at all. -/
theorem stale_stat_mixes_versions :
    let r := fileResponseRace false 3 false [] 0 10 {} none (some ([1, 2, 3, 4], 5))
    let r2 := fileResponseRace false 3 false [] 0 10 {} (some ((ascii "bytes=-2").map (·.toNat))) (some ([1, 2, 3, 4], 5))
    r.status = 200 ∧ r.contentLength = some 10 ∧ r.body = [1, 2, 3, 4] ∧
    r2.status = 206 ∧ r2.contentRange = .range 8 9 10 ∧ r2.body = [] := by
  decide

/-! ## Part 2 — confinement

`fs : Fs` is an arbitrary function from absolute paths to what `lstat` finds there; nothing
is assumed about it.  `Resolved fs p` = no component of `p` is a symbolic link, i.e. `p` is
the real location of whatever it names. -/

/-- a toy tree: `/r` is the root with `a` (file 1), `out -> ../o/s` and `self -> self`;
`/o/s` (file 2) lies outside -/
def toyFs : Fs := tableFs [
  ([[114]], .dir), ([[114], [97]], .file 1), ([[114], [111, 117, 116]], .link [46, 46, 47, 111, 47, 115]),
  ([[114], [115, 101, 108, 102]], .link [115, 101, 108, 102]),
  ([[111]], .dir), ([[111], [115]], .file 2), ([[114], [97, 46, 103, 122]], .file 3)]
def toyCfg (follow : Bool) : Cfg := { root := [[114]], follow := follow, showIndex := false }

/-- evaluate the model on the toy tree by rewriting with its defining equations (`walk` is
defined by well-founded recursion, which `decide` cannot unfold) -/
macro "toy_eval" : tactic => `(tactic|
  simp [serve, serveG, resolvePathG, isFixpoint, Gen.C15.resolveFixpointCheck, toyCfg, pathSegs, splitSlash, SLASH, DOT, DOTDOT, realpath, follow, walk, hasNul,
    toyFs, tableFs, itemNames, lexNorm, statF, fileTarget, sibling, asciiLower, findSub, isPrefix,
    Gen.C15.encodingExtensions, osLstat, withExt])

/-- **`realpath` yields real locations.**  Whatever the kernel-style walk returns contains no
symbolic link and no `.`/`..`/empty name — for every file system, start path and fuel. -/
theorem walk_resolved (fs : Fs) (fuel : Nat) (p q : Path) (h : follow fs fuel p = .ok q) :
    Resolved fs q ∧ NormalPath q := follow_resolved fs fuel p q h

/-- **A real location is its own real location**: following links from a resolved path goes
nowhere, so `stat` there is `lstat` there. -/
theorem stat_of_resolved (fs : Fs) (fuel : Nat) (p : Path) (h : Resolved fs p) (hn : NormalPath p) :
    follow fs fuel p = .ok p := follow_of_resolved fs fuel p h hn

/-- the F21 repair is present in the source as it is now (`generate()` probes
`_resolve_path_to_response` on every run; removing the check breaks this proof and `confined`) -/
theorem fixpoint_check_present : Gen.C15.resolveFixpointCheck = true := by decide

/-- **Confinement, independent of the repair.**  For every file system, root, file name and
Accept-Encoding, with or without the fixpoint check: if resolving the joined path did not run
into a symlink loop (`hnoloop`), whatever the route serves without follow_symlinks comes from a
location inside the root with no symbolic link at any level, and is a regular file there. -/
theorem confined_partial (fix : Bool) (fs : Fs) (fuel : Nat) (cfg : Cfg) (filename ae : Str) (p : Path) (id : Nat)
    (enc : Option Str) (hfollow : cfg.follow = false) (hroot : fs.lstat cfg.root = .dir)
    (hnoloop : ∀ pp, follow fs fuel (cfg.root ++ pathSegs filename) ≠ .loop pp)
    (h : serveG fix fs fuel cfg filename ae = .file p id enc) :
    cfg.root <+: p ∧ Resolved fs p ∧ fs.lstat p = .file id := by
  unfold serveG at h
  split at h
  · next o ho => exact absurd h (resolvePath_inl_not_file fix fs fuel cfg filename o ho p id enc)
  · next p' hp' =>
    obtain ⟨hrp, hpre, hnd, _⟩ := resolvePath_inr_nofollow fix fs fuel cfg filename p' hfollow hp'
    have hf := realpath_noloop fs fuel _ _ hnoloop hrp
    obtain ⟨hres, hnorm⟩ := follow_resolved fs fuel _ _ hf
    exact fileTarget_confined fs fuel cfg.root p' _ p id enc hroot
      (List.isPrefixOf_iff_prefix.mp hpre) hres hnorm hnd h

/-- **Confinement without follow_symlinks (full statement, for the code as it is now).**
For every file system `fs` (any function from paths to `lstat` results — loops, dangling and
crossing links included), every root that is a directory, every request file name and
Accept-Encoding: if the static route serves a file at all, the bytes come from a location `p`
that is inside the root (component-wise), contains no symbolic link at any level (so `p` *is*
the real location), and is a regular file there — also when a pre-compressed sibling is chosen.
No hypothesis about loops: the fixpoint check makes `Path.resolve()`'s half-resolved answers
unreachable. -/
theorem confined (fs : Fs) (fuel : Nat) (cfg : Cfg) (filename ae : Str) (p : Path) (id : Nat)
    (enc : Option Str) (hfollow : cfg.follow = false) (hroot : fs.lstat cfg.root = .dir)
    (h : serve fs fuel cfg filename ae = .file p id enc) :
    cfg.root <+: p ∧ Resolved fs p ∧ fs.lstat p = .file id := by
  unfold serve at h
  rw [fixpoint_check_present] at h
  unfold serveG at h
  split at h
  · next o ho => exact absurd h (resolvePath_inl_not_file true fs fuel cfg filename o ho p id enc)
  · next p' hp' =>
    obtain ⟨_, hpre, hnd, hfix⟩ := resolvePath_inr_nofollow true fs fuel cfg filename p' hfollow hp'
    have hf := isFixpoint_follow fs fuel p' (hfix rfl)
    obtain ⟨hres, hnorm⟩ := follow_resolved fs fuel _ _ hf
    exact fileTarget_confined fs fuel cfg.root p' _ p id enc hroot
      (List.isPrefixOf_iff_prefix.mp hpre) hres hnorm hnd h

set_option linter.unusedSimpArgs false in
example : serve toyFs 8 (toyCfg false) [97] [] = .file [[114], [97]] 1 none := by toy_eval
set_option linter.unusedSimpArgs false in
example : serve toyFs 8 (toyCfg false) [97] [103, 122, 105, 112] = .file [[114], [97, 46, 103, 122]] 3 (some [103, 122, 105, 112]) := by
  toy_eval
set_option linter.unusedSimpArgs false in
example : ∀ pp, follow toyFs 8 ((toyCfg false).root ++ pathSegs [97]) ≠ .loop pp := by
  intro pp; toy_eval

set_option linter.unusedSimpArgs false in
/-- **Finding F21 (why the check is needed): counterexample for the model without it.**  Root
`/r` contains the loop `self -> self` and `out -> ../o/s`.  Without follow_symlinks, `out` is
refused (404) but — in the code before the repair (`fix = false`) — `self/../out` is served
from `/o/s`, outside the root: `Path.resolve()` gives up at the loop, returns `/r/self/../out`
normalised to `/r/out`, which passes `relative_to(root)` lexically, and `FileResponse` then
follows the link.  With the check (`fix = true`) the same request is a 404. -/
theorem f21_symlink_loop_escapes_root :
    serveG false toyFs 8 (toyCfg false) [111, 117, 116] [] = .notFound ∧
    serveG false toyFs 8 (toyCfg false) [115, 101, 108, 102, 47, 46, 46, 47, 111, 117, 116] [] = .file [[111], [115]] 2 none ∧
    ¬ ((toyCfg false).root <+: [[111], [115]]) ∧
    serveG true toyFs 8 (toyCfg false) [115, 101, 108, 102, 47, 46, 46, 47, 111, 117, 116] [] = .notFound := by
  refine ⟨by toy_eval, by toy_eval, by decide, by toy_eval⟩

/-- **With follow_symlinks the request path itself still cannot leave the root**: a file or a
listing is produced only if the joined path, normalised *lexically* (dot segments removed
without looking at the disk), stays under the root; only links met while resolving that path
can lead outside. -/
theorem follow_only_via_links (fs : Fs) (fuel : Nat) (cfg : Cfg) (filename ae : Str) (p : Path)
    (hfollow : cfg.follow = true)
    (h : (∃ id enc, serve fs fuel cfg filename ae = .file p id enc) ∨
         serve fs fuel cfg filename ae = .listing p) :
    cfg.root <+: lexNorm (cfg.root ++ pathSegs filename) := by
  unfold serve serveG at h
  split at h
  · next o ho =>
    rcases h with ⟨id, enc, h⟩ | h
    · exact absurd h (resolvePath_inl_not_file _ fs fuel cfg filename o ho p id enc)
    · subst h
      unfold resolvePathG at ho
      simp only [hfollow, if_true] at ho
      repeat' split at ho
      all_goals cases ho
      by_cases hp : cfg.root.isPrefixOf (lexNorm (cfg.root ++ pathSegs filename)) = true
      · exact List.isPrefixOf_iff_prefix.mp hp
      · simp [hp] at *
  · next p' hp' =>
    exact List.isPrefixOf_iff_prefix.mp (resolvePath_inr_follow _ fs fuel cfg filename p' hfollow hp').1

/-- **A directory listing only if enabled** — and only of a directory lexically under the
root (which, without follow_symlinks and without the F21 loop case, is a resolved path). -/
theorem listing_only_if_enabled (fs : Fs) (fuel : Nat) (cfg : Cfg) (filename ae : Str) (p : Path)
    (h : serve fs fuel cfg filename ae = .listing p) :
    cfg.showIndex = true ∧ cfg.root <+: p ∧ statF fs fuel p = .dir := by
  unfold serve serveG at h
  split at h
  · next o ho =>
    subst h
    obtain ⟨h1, h2, h3⟩ := resolvePath_listing _ fs fuel cfg filename p ho
    exact ⟨h1, List.isPrefixOf_iff_prefix.mp h2, h3⟩
  · next p' _ =>
    unfold fileTarget at h
    repeat' split at h
    all_goals cases h

/-- **A pre-compressed sibling is never reached through a link at its own name**: when a
`.br`/`.gz` variant is served, `lstat` of the sibling's own directory entry (in the resolved
directory) says regular file. -/
theorem sibling_not_followed (fs : Fs) (fuel : Nat) (p' : Path) (ae : Str) (q : Path) (id : Nat) (coding : Str)
    (h : fileTarget fs fuel p' ae = .file q id (some coding)) :
    ∃ ext, osLstat fs fuel (withExt p' ext) = .file id := by
  rcases fileTarget_file fs fuel p' ae q id _ h with ⟨ext, d, _, hl, _⟩ | ⟨_, _, hn⟩
  · exact ⟨ext, hl⟩
  · cases hn

/-- **Absolute file names are refused** (`//host/share`, `/etc/passwd` after `%2F` decoding):
404 before the file system is consulted. -/
theorem absolute_filename_rejected (fs : Fs) (fuel : Nat) (cfg : Cfg) (filename ae : Str)
    (h : filename.head? = some SLASH) : serve fs fuel cfg filename ae = .notFound := by
  simp [serve, serveG, resolvePathG, h]

/-- `sibling` finds nothing when no entry named like a pre-compressed variant is a regular file -/
theorem sibling_none (fs : Fs) (fuel : Nat) (p : Path) (ae : Str) :
    ∀ exts : List (Str × Str), (∀ e ∈ exts, ∀ id, osLstat fs fuel (withExt p e.1) ≠ .file id) →
      sibling fs fuel p ae exts = none := by
  intro exts
  induction exts with
  | nil => intro _; rfl
  | cons e t ih =>
    intro h
    obtain ⟨ext, cod⟩ := e
    have ht := ih (fun e he => h e (List.mem_cons_of_mem _ he))
    simp only [sibling]
    split
    · split
      · next id d hl _ => exact absurd hl (h (ext, cod) (List.mem_cons_self ..) id)
      · exact ht
    · exact ht

/-- **A regular file is served itself unless a *regular* pre-compressed sibling exists.**  If
`p` is a real location holding regular file `id` and every entry named `p.br` / `p.gz` is
something else (directory, FIFO, socket, symbolic link, missing), then whatever
Accept-Encoding says the answer is that file, uncompressed — a non-regular sibling neither
replaces it nor makes it disappear. -/
theorem regular_file_served (fs : Fs) (fuel : Nat) (p : Path) (ae : Str) (id : Nat)
    (hres : Resolved fs p) (hnorm : NormalPath p) (hfile : fs.lstat p = .file id)
    (hsib : ∀ e ∈ Gen.C15.encodingExtensions, ∀ i, osLstat fs fuel (withExt p e.1) ≠ .file i) :
    fileTarget fs fuel p ae = .file p id none := by
  unfold fileTarget
  rw [sibling_none fs fuel p ae _ hsib]
  simp [follow_of_resolved fs fuel p hres hnorm, hfile]

/-- **Confinement along any history of the file system.**  The model keeps no state between
requests (that the implementation does not either is what the history runs of the harness
compare): for every sequence of file systems and requests — the tree may change arbitrarily
from one request to the next — every file served without follow_symlinks is confined in the
file system *current at that request*. -/
theorem confined_history (fuel : Nat) (cfg : Cfg) (hfollow : cfg.follow = false)
    (steps : List (Fs × Str × Str)) (hroot : ∀ s ∈ steps, s.1.lstat cfg.root = .dir) :
    ∀ s ∈ steps, ∀ p id enc, serve s.1 fuel cfg s.2.1 s.2.2 = .file p id enc →
      cfg.root <+: p ∧ Resolved s.1 p ∧ s.1.lstat p = .file id :=
  fun s hs p id enc h => confined s.1 fuel cfg s.2.1 s.2.2 p id enc hfollow (hroot s hs) h

end Aio.C15
