import AioModel.C09
/-! `low_water < sys.maxsize` (the decoder's per-step output cap is ON) is changed by nothing but
`set_read_chunk_size(n)` with `n >= sys.maxsize`.  Same traversal as `C09Conserve.lean`, up to the
`BaseRequest.read()` loop. -/
namespace Aio.C09
open Aio
variable {c : Codec}

def LowCapped (w : World c) : Prop := w.low < maxsize

/-- a function that preserves the invariant -/
def LPres (f : World c → World c) : Prop := ∀ w, LowCapped w → LowCapped (f w)

theorem lowc_pauseReading : LPres (c := c) pauseReading := by
  intro w h; unfold pauseReading; simp only; split <;> exact h
theorem lowc_wake : LPres (c := c) wake := by intro w h; exact h
theorem lowc_setExc (e : Err) : LPres (c := c) (setExc · e) := by
  intro w h; simp only [setExc]; split <;> exact h
theorem lowc_failWith (e : Err) : LPres (c := c) (failWith · e) := by intro w h; exact h
theorem lowc_rdFeed (d : Bytes) : LPres (c := c) (rdFeed · d) := by
  intro w h
  simp only [rdFeed]
  repeat' split
  all_goals first | exact h | exact lowc_pauseReading _ h
theorem lowc_resumeTransport : LPres (c := c) resumeTransport := by
  intro w h; simp only [resumeTransport]; split <;> exact h
theorem lowc_rdFeedEof : LPres (c := c) rdFeedEof := by
  intro w h; exact lowc_resumeTransport _ h
theorem lowc_setChunk (n : Nat) (hn : n < maxsize) : LPres (c := c) (setChunk · n) := by
  intro w h; simp only [setChunk]; split
  · exact hn
  · exact h
theorem lowc_beginChunk : LPres (c := c) beginChunk := by
  intro w h; simp only [beginChunk]; split
  · exact h
  · split <;> exact h
theorem lowc_endChunk : LPres (c := c) endChunk := by
  intro w h; simp only [endChunk]; split
  · exact h
  · split
    · exact h
    · simp only [wake]; split
      · exact lowc_pauseReading _ h
      · exact h

theorem lowc_sniffStart (d : Bytes) : LPres (c := c) (sniffStart · d) := by
  intro w h; simp only [sniffStart]; split <;> exact h
theorem lowc_decodeFeed (d : Bytes) : LPres (c := c) (decodeFeed · d) := by
  intro w h
  simp only [decodeFeed]
  split
  · exact h
  · exact lowc_rdFeed _ _ h
theorem lowc_payFeed (d : Bytes) : LPres (c := c) (payFeed · d) := by
  intro w h
  simp only [payFeed]
  split
  · exact lowc_rdFeed d _ h
  · exact lowc_decodeFeed d _ (lowc_sniffStart d _ h)
theorem lowc_payEof : LPres (c := c) payEof := by
  intro w h; simp only [payEof]; split
  · exact h
  · exact lowc_rdFeedEof _ h
theorem lowc_drain : ∀ fuel, LPres (c := c) (drain fuel) := by
  intro fuel
  induction fuel with
  | zero => intro w h; exact h
  | succ n ih =>
    intro w h
    simp only [drain]
    split
    · exact h
    · split
      · exact h
      · have := lowc_payFeed [] w h
        split
        · exact this
        · exact ih _ this
theorem lowc_feedLength (d : Bytes) : LPres (c := c) (feedLength · d) := by
  intro w h
  simp only [feedLength]
  have h1 := lowc_payFeed ((w.tail ++ d).take w.length) { w with tail := [], length := w.length - (w.tail ++ d).length } h
  split
  · exact h1
  · have h2 := fun f => lowc_drain (c := c) f _ h1
    split
    · exact h2 _
    · exact h2 _
    · split
      · split
        · exact lowc_payEof _ (h2 _)
        · exact lowc_payEof _ (h2 _)
      · exact h2 _
theorem lowc_feedUntilEof (d : Bytes) : LPres (c := c) (feedUntilEof · d) := by
  intro w h
  simp only [feedUntilEof]
  have h1 := lowc_payFeed d w h
  split
  · exact h1
  · have h2 := fun f => lowc_drain (c := c) f _ h1
    split
    · exact h2 _
    · exact h2 _
    · split
      · split
        · exact lowc_payEof _ (h2 _)
        · exact lowc_payEof _ (h2 _)
      · exact h2 _

/-- continuation that preserves the invariant -/
def LPresK (k : World c → Bytes → World c) : Prop := ∀ w d, LowCapped w → LowCapped (k w d)

theorem lowc_payEof' (w : World c) (h : LowCapped w) : LowCapped (payEof w) := lowc_payEof w h
theorem lowc_endChunk' (w : World c) (h : LowCapped w) : LowCapped (endChunk w) := lowc_endChunk w h
theorem lowc_beginChunk' (w : World c) (h : LowCapped w) : LowCapped (beginChunk w) := lowc_beginChunk w h
theorem lowc_payFeed' (w : World c) (d : Bytes) (h : LowCapped w) : LowCapped (payFeed w d) := lowc_payFeed d w h
theorem lowc_failWith' (w : World c) (e : Err) (h : LowCapped w) : LowCapped (failWith w e) := h

theorem lowc_trailersStep (k : World c → Bytes → World c) (hk : LPresK k) : LPresK (trailersStep k) := by
  intro w d h
  simp only [trailersStep]
  repeat' split
  all_goals repeat (first | exact h | apply hk | apply lowc_payEof' | apply lowc_failWith')
theorem lowc_chunkEofStep (k : World c → Bytes → World c) (hk : LPresK k) : LPresK (chunkEofStep k) := by
  intro w d h
  simp only [chunkEofStep]
  repeat' split
  all_goals repeat (first | exact h | apply hk | apply lowc_failWith')
theorem lowc_chunkStep (k : World c → Bytes → World c) (hk : LPresK k) : LPresK (chunkStep k) := by
  intro w d h
  simp only [chunkStep]
  repeat' split
  all_goals repeat (first | exact h | apply hk | apply lowc_chunkEofStep k hk | apply lowc_endChunk' | apply lowc_payFeed')
theorem lowc_sizeStep (k : World c → Bytes → World c) (hk : LPresK k) : LPresK (sizeStep k) := by
  intro w d h
  simp only [sizeStep]
  repeat' split
  all_goals repeat (first | exact h | apply lowc_trailersStep k hk | apply lowc_chunkStep k hk | apply lowc_beginChunk' | apply lowc_failWith')
theorem lowc_chunkedLoop : ∀ fuel, LPresK (c := c) (chunkedLoop fuel) := by
  intro fuel
  induction fuel with
  | zero => intro w d h; exact h
  | succ n ih =>
    intro w d h
    simp only [chunkedLoop]
    repeat' split
    all_goals repeat (first | exact h | apply lowc_sizeStep _ ih | apply lowc_chunkStep _ ih | apply lowc_chunkEofStep _ ih | apply lowc_trailersStep _ ih)
theorem lowc_ppFeedCore (d : Bytes) : LPres (c := c) (ppFeedCore · d) := by
  intro w h
  simp only [ppFeedCore]
  split
  · exact lowc_feedLength d w h
  · exact lowc_feedUntilEof d w h
  · split
    · exact h
    · exact lowc_chunkedLoop _ { w with tail := [] } _ h
theorem lowc_ppFeed (d : Bytes) : LPres (c := c) (ppFeed · d) := by
  intro w h
  have h1 := lowc_ppFeedCore d w h
  simp only [ppFeed]
  split
  · exact h1
  · exact h1
theorem lowc_parserFeed (d : Bytes) : LPres (c := c) (parserFeed · d) := by
  intro w h
  simp only [parserFeed]
  split
  · exact h
  · split
    · exact h
    · have h1 := lowc_ppFeed d { w with raised := none, res := .needs } h
      split
      · exact h1
      · exact h1
      · exact h1
      · split
        · exact lowc_setExc _ _ h1
        · exact lowc_setExc _ _ h1
theorem lowc_dataReceived (d : Bytes) : LPres (c := c) (dataReceived · d) := by
  intro w h; simp only [dataReceived]; split
  · exact h
  · exact lowc_parserFeed d w h
theorem lowc_resumeReading : LPres (c := c) resumeReading := by
  intro w h
  exact lowc_resumeTransport _ (lowc_dataReceived [] { w with readingPaused := false } h)

theorem lowc_resumeReading' (w : World c) (h : LowCapped w) : LowCapped (resumeReading w) := lowc_resumeReading w h

theorem lowc_readChunk (n : Option Nat) : LPres (c := c) (readChunk · n) := by
  intro w h
  simp only [readChunk]
  repeat' split
  all_goals first | exact h | (apply lowc_resumeReading'; exact h)

theorem lowc_readAllChunks : ∀ k, LPres (c := c) (readAllChunks k) := by
  intro k
  induction k with
  | zero => intro w h; exact h
  | succ n ih => intro w h; exact ih _ (lowc_readChunk none w h)

theorem lowc_readUpTo : ∀ fuel n, LPres (c := c) (readUpTo fuel n) := by
  intro fuel
  induction fuel with
  | zero => intro n w h; exact h
  | succ f ih =>
    intro n w h
    simp only [readUpTo]
    repeat' split
    all_goals first | exact h | exact lowc_readChunk _ w h | exact ih _ _ (lowc_readChunk _ w h)

theorem lowc_ppFeedEof : LPres (c := c) ppFeedEof := by
  intro w h
  simp only [ppFeedEof]
  repeat' split
  all_goals first
    | exact h
    | exact lowc_drain _ _ h
    | exact lowc_payEof _ (lowc_drain _ _ h)

theorem lowc_connectionLost : LPres (c := c) connectionLost := by
  intro w h
  simp only [connectionLost]
  have h1 := lowc_ppFeedEof { w with raised := none, res := .needs } h
  repeat' split
  all_goals first | exact h | exact h1 | exact lowc_setExc _ _ h1

theorem lowc_reqLoop (cms : Nat) : ∀ fuel (w : World c), LowCapped w → LowCapped (reqLoop cms fuel w).1 := by
  intro fuel
  induction fuel with
  | zero => intro w h; exact h
  | succ f ih =>
    intro w h
    simp only [reqLoop]
    have h1 := lowc_readAllChunks w.buf.length { w with reqParked := false, outb := [] } h
    repeat' split
    all_goals first | exact h | exact h1 | exact ih _ h1

end Aio.C09
