import AioModel.Basic
/-! `ofHex (toHex n) = some n`, and `toHex n` consists of hex digits (no CR / LF). -/
namespace Aio

theorem hexVal_hexDigit (d : Nat) (h : d < 16) : hexVal (hexDigit d) = some d := by
  unfold hexVal hexDigit
  have : d = 0 ∨ d = 1 ∨ d = 2 ∨ d = 3 ∨ d = 4 ∨ d = 5 ∨ d = 6 ∨ d = 7 ∨ d = 8 ∨ d = 9 ∨ d = 10 ∨ d = 11 ∨ d = 12 ∨ d = 13 ∨ d = 14 ∨ d = 15 := by omega
  rcases this with h|h|h|h|h|h|h|h|h|h|h|h|h|h|h|h <;> subst h <;> decide

theorem hexDigit_ge (d : Nat) (h : d < 16) : 48 ≤ (hexDigit d).toNat := by
  unfold hexDigit
  have : d = 0 ∨ d = 1 ∨ d = 2 ∨ d = 3 ∨ d = 4 ∨ d = 5 ∨ d = 6 ∨ d = 7 ∨ d = 8 ∨ d = 9 ∨ d = 10 ∨ d = 11 ∨ d = 12 ∨ d = 13 ∨ d = 14 ∨ d = 15 := by omega
  rcases this with h|h|h|h|h|h|h|h|h|h|h|h|h|h|h|h <;> subst h <;> decide

theorem ofHexFrom_append (a : Option Nat) (x y : Bytes) :
    ofHexFrom a (x ++ y) = ofHexFrom (ofHexFrom a x) y := by
  simp [ofHexFrom, List.foldl_append]

theorem ofHexFrom_toHex (n a : Nat) :
    ofHexFrom (some a) (toHex n) = some (a * 16 ^ (toHex n).length + n) := by
  induction n using Nat.strongRecOn generalizing a with
  | _ n ih =>
    rw [toHex]
    split
    · next h => simp [ofHexFrom, hexStep, hexVal_hexDigit n h]
    · next h =>
      have hlt : n / 16 < n := by omega
      rw [ofHexFrom_append, ih _ hlt]
      simp [ofHexFrom, hexStep, hexVal_hexDigit (n % 16) (Nat.mod_lt _ (by decide))]
      rw [Nat.pow_succ]
      have := Nat.div_add_mod n 16
      have e : (a * 16 ^ (toHex (n / 16)).length + n / 16) * 16 + n % 16
             = a * (16 ^ (toHex (n / 16)).length * 16) + (16 * (n / 16) + n % 16) := by
        rw [Nat.add_mul, Nat.mul_assoc, Nat.mul_comm (n/16) 16, Nat.add_assoc]
      rw [e, this]

theorem toHex_ne_nil (n : Nat) : toHex n ≠ [] := by
  rw [toHex]; split <;> simp

/-- `int(f"{n:x}", 16) == n` for every `n` -/
theorem ofHex_toHex (n : Nat) : ofHex (toHex n) = some n := by
  unfold ofHex
  have := toHex_ne_nil n
  cases h : toHex n with
  | nil => exact absurd h this
  | cons c cs => simp [← h, ofHexFrom_toHex, this]

theorem toHex_ge48 (n : Nat) : ∀ b ∈ toHex n, 48 ≤ b.toNat := by
  induction n using Nat.strongRecOn with
  | _ n ih =>
    rw [toHex]
    split
    · next h => intro b hb; simp at hb; subst hb; exact hexDigit_ge n h
    · next h =>
      intro b hb
      rcases List.mem_append.mp hb with hb | hb
      · exact ih (n / 16) (by omega) b hb
      · simp at hb; subst hb; exact hexDigit_ge _ (Nat.mod_lt _ (by decide))

end Aio
