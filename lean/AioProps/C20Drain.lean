import AioModel.C20Drain
/-!
# C20 — property theorems, part 2: shutdown drains

Model: `AioModel/C20Drain.lean` (= `Server.pre_shutdown/shutdown`,
`RequestHandler.shutdown/close/start/data_received`, `helpers.ceil_timeout`).
`runFrom F c evs` drives one connection through an arbitrary sequence of timed client /
server labels, letting the internal events (handler completion, shutdown deadlines) fire in
time order in between; statements about `runFrom` for all `evs` are statements about all
schedules.  Times are ticks; `tps` ticks are one second (generated constant).
-/
namespace Aio.C20.Drain

def isHs : Obs → Bool
  | .hs _ => true
  | _ => false
def isHr : Obs → Bool
  | .hr _ => true
  | _ => false
/-- number of handlers started so far -/
def hsCount (c : Conn) : Nat := (c.obs.filter isHs).length
/-- number of handlers that returned a response so far -/
def hrCount (c : Conn) : Nat := (c.obs.filter isHr).length

/-! ## `ceil_timeout` -/

/-- `ceil_timeout(T)`: no deadline exactly when `T = 0`; otherwise the deadline is not before
`now + T` and less than one second after it. -/
theorem deadline_le (now T : Nat) :
    (deadline now T = none ↔ T = 0) ∧
      ∀ d, deadline now T = some d → now + T ≤ d ∧ d < now + T + tps := by
  unfold deadline
  have htps : tps = 8 := by decide
  constructor
  · by_cases h : T = 0
    · simp [h]
    · simp only [h, if_false]
      split <;> simp
  · intro d
    by_cases h : T = 0
    · simp [h]
    · simp only [h, if_false]
      split
      · intro hd
        simp only [Option.some.injEq] at hd
        rw [htps] at hd ⊢
        omega
      · intro hd
        simp only [Option.some.injEq] at hd
        rw [htps]
        omega

/-! ## invariants of the connection machine -/

theorem advance_succ (F t : Nat) (c : Conn) :
    advance (F + 1) t c = match nextInternal c with
      | some (u, ev) => if u ≤ t then advance F t (fire c u ev) else c
      | none => c := rfl

/-- a property preserved by every internal event that can actually fire and by every label
is preserved by any run -/
theorem runFrom_induction (P : Conn → Prop)
    (hfire : ∀ c u ev, P c → nextInternal c = some (u, ev) → P (fire c u ev))
    (hstep : ∀ c t l, P c → P (step c t l)) :
    ∀ F evs c, P c → P (runFrom F c evs) := by
  have hadv : ∀ F t c, P c → P (advance F t c) := by
    intro F t
    induction F with
    | zero => intro c h; exact h
    | succ F ih =>
      intro c h
      rw [advance_succ]
      cases hn : nextInternal c with
      | none => exact h
      | some p =>
        obtain ⟨u, ev⟩ := p
        simp only
        split
        · exact ih _ (hfire c u ev h hn)
        · exact h
  intro F evs
  induction evs with
  | nil => intro c h; exact h
  | cons e evs ih =>
    intro c h
    simp only [runFrom, List.foldl_cons]
    exact ih _ (hstep _ _ _ (hadv F e.1 c h))

theorem settle_induction (P : Conn → Prop)
    (hfire : ∀ c u ev, P c → nextInternal c = some (u, ev) → P (fire c u ev)) :
    ∀ F c, P c → P (settle F c) := by
  intro F
  induction F with
  | zero => intro c h; exact h
  | succ F ih =>
    intro c h
    simp only [settle]
    cases hn : nextInternal c with
    | none => exact h
    | some p =>
      obtain ⟨u, ev⟩ := p
      exact ih _ (hfire c u ev h hn)

@[simp] theorem hsCount_obs_append (c : Conn) (l : List Obs) :
    (List.filter isHs (c.obs ++ l)).length = hsCount c + (l.filter isHs).length := by
  simp [hsCount, List.filter_append]

@[simp] theorem hrCount_obs_append (c : Conn) (l : List Obs) :
    (List.filter isHr (c.obs ++ l)).length = hrCount c + (l.filter isHr).length := by
  simp [hrCount, List.filter_append]

/-! ## no new requests after shutdown -/

theorem fire_closed (c : Conn) (u : Nat) (ev : Internal) (h : c.closeFlag = true) :
    (fire c u ev).closeFlag = true ∧ hsCount (fire c u ev) = hsCount c := by
  cases ev with
  | handlerDone =>
    by_cases hs : c.sendDur = 0 <;>
    cases hcur : c.cur <;> cases hsd : c.sd <;> cases hf : c.forceClose <;> cases ho : c.transportOpen <;>
      cases hp : c.payloadExc <;>
      simp [fire, requestDone, afterHandler, finishShutdown, closeTransport, hsCount, isHs, h, hs, hcur, hsd, hf, ho, hp,
        List.filter_append]
  | timeout =>
    simp only [fire]
    cases hsd : c.sd <;> cases hcur : c.cur <;> cases ho : c.transportOpen <;>
      simp [finishShutdown, closeTransport, hsCount, isHs, h, hsd, hcur, ho, List.filter_append]

theorem step_closed (c : Conn) (t : Nat) (l : Label) (h : c.closeFlag = true) :
    (step c t l).closeFlag = true ∧ hsCount (step c t l) = hsCount c := by
  cases l with
  | recv rs => simp [step, h]
  | recvPartial => simp [step, h]
  | recvBody => simp [step, h]
  | preShutdown =>
    simp only [step]
    split <;> simp [h, hsCount]
  | shutdownStart T =>
    simp only [step]
    cases hcur : c.cur <;> cases ht : c.taskAlive <;> cases ho : c.transportOpen <;>
      simp [finishShutdown, closeTransport, hsCount, isHs, h, hcur, ht, ho, List.filter_append]

/-- **No new requests are accepted after the shutdown moment — all schedules.**  Once
`pre_shutdown` has marked a connection (`_close`), no handler is ever started on it again,
whatever bytes arrive (new requests, pipelined or not), whatever requests were already
queued, whenever handlers finish and deadlines fire. -/
theorem no_new_requests_after_shutdown (F : Nat) (evs : List (Nat × Label)) (c : Conn)
    (h : c.closeFlag = true) :
    hsCount (runFrom F c evs) = hsCount c ∧ (runFrom F c evs).closeFlag = true := by
  have := runFrom_induction (fun c' => c'.closeFlag = true ∧ hsCount c' = hsCount c)
    (fun c' u ev hc _ => ⟨(fire_closed c' u ev hc.1).1, (fire_closed c' u ev hc.1).2.trans hc.2⟩)
    (fun c' t l hc => ⟨(step_closed c' t l hc.1).1, (step_closed c' t l hc.1).2.trans hc.2⟩)
    F evs c ⟨h, rfl⟩
  exact ⟨this.2, this.1⟩

/-- `pre_shutdown` sets the mark on every connection, whatever its state. -/
theorem preShutdown_sets_close (c : Conn) (t : Nat) : (step c t .preShutdown).closeFlag = true := by
  simp only [step]; split <;> rfl

/-! ## idle connections -/

def isClient : Label → Bool
  | .recv _ => true
  | .recvPartial => true
  | .recvBody => true
  | _ => false

/-- an idle connection marked by `pre_shutdown`: nothing can happen on it until `shutdown` -/
structure Marked (c : Conn) : Prop where
  close : c.closeFlag = true
  cur : c.cur = .idle
  sd : c.sd = .none

theorem marked_quiet (F : Nat) (c : Conn) (h : Marked c) (evs : List (Nat × Label))
    (hcl : ∀ e ∈ evs, isClient e.2 = true) : runFrom F c evs = c := by
  have hn : nextInternal c = none := by simp [nextInternal, h.cur, h.sd]
  have hadv : ∀ t, advance F t c = c := by
    intro t; cases F with
    | zero => rfl
    | succ F => rw [advance_succ, hn]
  induction evs with
  | nil => rfl
  | cons e evs ih =>
    simp only [runFrom, List.foldl_cons, hadv]
    have he := hcl e (by simp)
    have hstep : step c e.1 e.2 = c := by
      cases hl : e.2 with
      | recv rs => simp [step, h.close]
      | recvPartial => simp [step]
      | recvBody => simp [step, h.close]
      | preShutdown => simp [hl, isClient] at he
      | shutdownStart T => simp [hl, isClient] at he
    rw [hstep]
    exact ih (fun e' he' => hcl e' (by simp [he']))

/-- **Idle keep-alive connections are closed when `Server.shutdown` starts — all client
schedules.**  A connection with no request in progress at the shutdown moment `t0` (fresh,
partial head, or between keep-alive requests) is marked by `pre_shutdown`; whatever bytes the
client sends afterwards, no handler starts, and at `ts` (the moment `Server.shutdown` is
entered, `ts = t0 +` the time the `on_shutdown` handlers take) its transport is closed and
its `shutdown` returns immediately.  With `on_shutdown` handlers that take no time this is
"at once"; see `idle_open_until_on_shutdown_done` for the other case. -/
theorem idle_closed_at_shutdown (F : Nat) (c : Conn) (t0 ts T : Nat) (evs : List (Nat × Label))
    (hcur : c.cur = .idle) (hsd : c.sd = .none) (hopen : c.transportOpen = true)
    (hcl : ∀ e ∈ evs, isClient e.2 = true) :
    let c1 := step c t0 .preShutdown
    let c3 := step (advance F ts (runFrom F c1 evs)) ts (.shutdownStart T)
    c3.transportOpen = false ∧ c3.sd = .done ∧ c3.obs = c.obs ++ [.close ts, .done ts] := by
  intro c1 c3
  have hm : Marked c1 := ⟨preShutdown_sets_close c t0, by simp [c1, step, hcur], by simp [c1, step, hcur, hsd]⟩
  have hq : runFrom F c1 evs = c1 := marked_quiet F c1 hm evs hcl
  have hn : nextInternal c1 = none := by simp [nextInternal, hm.cur, hm.sd]
  have hadv : advance F ts c1 = c1 := by
    cases F with
    | zero => rfl
    | succ F => rw [advance_succ, hn]
  have e3 : c3 = step c1 ts (.shutdownStart T) := by simp only [c3, hq, hadv]
  rw [e3]
  simp [c1, step, hcur, finishShutdown, closeTransport, hopen]

/-! ## requests in flight -/

/-- **A request being handled may complete during the shutdown timeout.**  A handler that is
running at the shutdown moment `t0` and returns by itself at `fin`, with `fin` before the end
of the first timeout window entered at `ts ≥ t0` (or any `fin` when there is no timeout),
does return at `fin`, its complete response reaches the still-open transport at `fin`, it is
never cancelled, and the transport is closed afterwards.  (`hsend`: the response is written in
one piece; a streamed body: `streamed_response_within_timeout_completes`.) -/
theorem inflight_may_finish (F : Nat) (c : Conn) (fin t0 ts T tEnd : Nat)
    (hcur : c.cur = .sleeping fin) (hopen : c.transportOpen = true) (hsd : c.sd = .none)
    (hfc : c.forceClose = false) (hsend : c.sendDur = 0)
    (h0 : t0 < fin) (h01 : t0 ≤ ts) (hend : fin ≤ tEnd) (hts : ts ≤ tEnd)
    (hT : T = 0 ∨ fin < ts + T) :
    let c1 := step c t0 .preShutdown
    let c2 := step (advance (F + 1) ts c1) ts (.shutdownStart T)
    let c3 := advance (F + 1) tEnd c2
    c3.obs = c.obs ++ [.hr fin, .resp fin, .close fin] ++ (if fin ≤ ts then [.done ts] else [.done fin]) ∧
      c3.transportOpen = false ∧ c3.cur = .idle := by
  intro c1 c2 c3
  have hc1 : c1 = { c with closeFlag := true } := by simp [c1, step, hcur]
  have hn1 : nextInternal c1 = some (fin, .handlerDone) := by simp [hc1, nextInternal, hcur, hsd]
  by_cases hle : fin ≤ ts
  · -- the handler returns while the on_shutdown handlers are still running
    have ha : advance (F + 1) ts c1 =
        { c with closeFlag := true, cur := .idle, taskAlive := false, transportOpen := false,
                 obs := c.obs ++ [.hr fin, .resp fin] ++ [.close fin] } := by
      rw [advance_succ, hn1]
      simp only [hle, if_true]
      have hf : fire c1 fin .handlerDone =
          { c with closeFlag := true, cur := .idle, taskAlive := false, transportOpen := false,
                   obs := c.obs ++ [.hr fin, .resp fin] ++ [.close fin] } := by
        simp [fire, requestDone, afterHandler, closeTransport, hc1, hopen, hfc, hsd, hcur, hsend]
      rw [hf]
      cases F with
      | zero => rfl
      | succ F => rw [advance_succ]; simp [nextInternal, hsd]
    have h2 : c2 =
        { c with closeFlag := true, cur := .idle, taskAlive := false, transportOpen := false,
                 forceClose := true, T := T, sd := .done,
                 obs := c.obs ++ [.hr fin, .resp fin] ++ [.close fin] ++ [.done ts] } := by
      simp [c2, ha, step, finishShutdown, closeTransport]
    have h3 : c3 = c2 := by
      simp only [c3]
      rw [advance_succ]
      simp [h2, nextInternal]
    rw [h3, h2]
    simp [hle]
  · -- the handler is still running when Server.shutdown starts
    have ha : advance (F + 1) ts c1 = c1 := by
      rw [advance_succ, hn1]; simp [hle]
    have h2 : c2 =
        { c with closeFlag := true, forceClose := true, T := T, sd := .wait1 (deadline ts T) } := by
      show step (advance (F + 1) ts c1) ts (.shutdownStart T) = _
      rw [ha, hc1]
      simp [step, hcur]
    have hn2 : nextInternal c2 = some (fin, .handlerDone) := by
      rw [h2]
      simp only [nextInternal, hcur]
      cases hd : deadline ts T with
      | none => rfl
      | some d =>
        have := ((deadline_le ts T).2 d hd).1
        have hT' : fin < ts + T := by
          rcases hT with h | h
          · have := (deadline_le ts T).1.mpr h; rw [hd] at this; cases this
          · exact h
        have : fin ≤ d := by omega
        simp [this]
    have hf : fire c2 fin .handlerDone =
        { c with closeFlag := true, forceClose := true, T := T, sd := .done, cur := .idle, taskAlive := false,
                 transportOpen := false, obs := c.obs ++ [.hr fin, .resp fin] ++ [.close fin] ++ [.done fin] } := by
      rw [h2]
      simp [fire, requestDone, afterHandler, finishShutdown, closeTransport, hopen, hcur, hsend]
    have h3 : c3 = fire c2 fin .handlerDone := by
      simp only [c3]
      rw [advance_succ, hn2]
      simp only [hend, if_true]
      cases F with
      | zero => rfl
      | succ F => rw [advance_succ, hf]; simp [nextInternal]
    rw [h3, hf]
    simp [hle]

def isSleeping : Cur → Bool
  | .sleeping _ => true
  | .sleepRead _ => true
  | .sending _ => true
  | _ => false

/-- **F20 — all schedules.**  A handler that is still waiting for the rest of its request
body when `pre_shutdown` marks the connection can never complete: every later byte is
dropped (`data_received` returns at once when `_close` is set), so whatever arrives and
whenever, no handler on this connection ever returns a response again; it can only be
cancelled. -/
theorem inflight_body_never_completes (F : Nat) (evs : List (Nat × Label)) (c : Conn) (d : Nat)
    (hclose : c.closeFlag = true) (hcur : c.cur = .waitBody d) :
    hrCount (runFrom F c evs) = hrCount c := by
  have := runFrom_induction
    (fun c' => c'.closeFlag = true ∧ isSleeping c'.cur = false ∧ hrCount c' = hrCount c)
    (by
      intro c' u ev hc hn
      cases ev with
      | handlerDone =>
        -- cannot be the next internal event: nobody is sleeping
        exfalso
        revert hn
        simp only [nextInternal]
        cases hcur' : c'.cur with
        | sleeping f => simp [hcur', isSleeping] at hc
        | sleepRead f => simp [hcur', isSleeping] at hc
        | sending f => simp [hcur', isSleeping] at hc
        | idle => cases c'.sd <;> simp <;> (try (intro h; cases h)) <;> (rename_i o; cases o <;> simp)
        | waitBody _ => cases c'.sd <;> simp <;> (try (intro h; cases h)) <;> (rename_i o; cases o <;> simp)
      | timeout =>
        simp only [fire]
        cases hsd : c'.sd <;> cases hcur' : c'.cur <;> cases ho : c'.transportOpen <;>
          simp_all [finishShutdown, closeTransport, hrCount, isHr, isSleeping, List.filter_append])
    (by
      intro c' t l hc
      cases l with
      | recv rs =>
        have : step c' t (.recv rs) = c' := by simp [step, hc.1]
        rw [this]; exact hc
      | recvPartial => exact hc
      | recvBody =>
        have : step c' t .recvBody = c' := by simp [step, hc.1]
        rw [this]; exact hc
      | preShutdown =>
        simp only [step]
        split
        · exact ⟨rfl, hc.2.1, hc.2.2⟩
        · exact ⟨rfl, hc.2.1, hc.2.2⟩
      | shutdownStart T =>
        simp only [step]
        cases hcur' : c'.cur <;> cases ht : c'.taskAlive <;> cases ho : c'.transportOpen <;>
          simp_all [finishShutdown, closeTransport, hrCount, isHr, isSleeping, List.filter_append])
    F evs c ⟨hclose, by simp [hcur, isSleeping], rfl⟩
  exact this.2.2

/-! ## cancelled at the latest after twice the timeout -/

/-- the connection's `shutdown` has returned: handler gone, transport closed -/
structure Closed (c : Conn) : Prop where
  sd : c.sd = .done
  cur : c.cur = .idle
  tr : c.transportOpen = false

theorem advance_closed (F t : Nat) (c : Conn) (h : Closed c) : advance F t c = c := by
  cases F with
  | zero => rfl
  | succ F => rw [advance_succ]; simp [nextInternal, h.sd, h.cur]

theorem closed_advance {F t : Nat} {c : Conn} (h : Closed c) : Closed (advance F t c) := by
  rw [advance_closed _ _ _ h]; exact h

theorem advance_fire (F t : Nat) (c : Conn) (u : Nat) (ev : Internal)
    (hn : nextInternal c = some (u, ev)) (hu : u ≤ t) :
    advance (F + 1) t c = advance F t (fire c u ev) := by
  rw [advance_succ, hn]; simp [hu]

theorem finishShutdown_closed (c : Conn) (t : Nat) (h : c.cur = .idle) : Closed (finishShutdown c t) := by
  refine ⟨rfl, ?_, ?_⟩
  · simp only [finishShutdown, closeTransport]; split <;> exact h
  · simp only [finishShutdown, closeTransport]; split
    · rfl
    · next ho => simpa using ho

theorem requestDone_closed (c : Conn) (t : Nat) (hf : c.forceClose = true)
    (hsd : (∃ d, c.sd = .wait1 d) ∨ ∃ d, c.sd = .wait2 d) : Closed (requestDone c t) := by
  rcases hsd with ⟨d, h⟩ | ⟨d, h⟩ <;>
    · simp only [requestDone, afterHandler, hf, Bool.not_true, Bool.and_false, Bool.false_eq_true, if_false, if_true, h]
      exact finishShutdown_closed _ _ rfl

/-- when `shutdown` is waiting and the response needs no further writing, the end of the
request in progress (or its failed late read) lets `shutdown` return -/
theorem fire_done_closed (c : Conn) (t : Nat) (hf : c.forceClose = true) (hs : c.sendDur = 0)
    (hsd : (∃ d, c.sd = .wait1 d) ∨ ∃ d, c.sd = .wait2 d) : Closed (fire c t .handlerDone) := by
  simp only [fire]
  cases hc : c.cur <;> simp only [hs, if_true] <;> (try split) <;>
    first
      | exact requestDone_closed _ _ hf hsd
      | exact requestDone_closed _ _ rfl hsd
      | exact finishShutdown_closed _ _ rfl

theorem fire_timeout2_closed (c : Conn) (t : Nat) (d : Option Nat) (hsd : c.sd = .wait2 d) :
    Closed (fire c t .timeout) := by
  simp only [fire, hsd]
  split
  · next hi => exact finishShutdown_closed _ _ hi
  · exact finishShutdown_closed _ _ rfl

theorem running_closed (F : Nat) (c : Conn) (fin d1 d2 B : Nat) (hf : c.forceClose = true)
    (hs : c.sendDur = 0) (hsd : c.sd = .wait1 (some d1)) (hdd : deadline d1 c.T = some d2)
    (hcur : c.cur = .sleeping fin ∨ c.cur = .sleepRead fin ∨ c.cur = .sending fin)
    (hb1 : d1 ≤ B) (hb2 : d2 ≤ B) : Closed (advance (F + 3) B c) := by
  by_cases h1 : fin ≤ d1
  · rw [advance_fire (F + 2) _ _ fin .handlerDone
      (by rcases hcur with h | h | h <;> simp [nextInternal, h, hsd, h1]) (by omega)]
    exact closed_advance (fire_done_closed _ _ hf hs (Or.inl ⟨_, hsd⟩))
  · rw [advance_fire (F + 2) _ _ d1 .timeout
      (by rcases hcur with h | h | h <;> simp [nextInternal, h, hsd, h1]) hb1]
    have hf3 : fire c d1 .timeout = { c with sd := .wait2 (some d2), payloadExc := true } := by
      rcases hcur with h | h | h <;> simp [fire, hsd, h, hdd]
    rw [hf3]
    by_cases h2 : fin ≤ d2
    · rw [advance_fire (F + 1) _ _ fin .handlerDone
        (by rcases hcur with h | h | h <;> simp [nextInternal, h, h2]) (by omega)]
      exact closed_advance (fire_done_closed _ _ hf hs (Or.inr ⟨_, rfl⟩))
    · rw [advance_fire (F + 1) _ _ d2 .timeout
        (by rcases hcur with h | h | h <;> simp [nextInternal, h, h2]) hb2]
      exact closed_advance (fire_timeout2_closed _ _ _ rfl)

/-- **Handlers are cancelled at the latest after twice the timeout (plus rounding).**  With a
positive `shutdown_timeout` `T`, a connection with a request in progress when
`Server.shutdown` starts at `ts` — handler sleeping, waiting for its body, about to read its
buffered body, or already writing a streamed response, however long it would still take —
has, by `ts + 2·T + 2 s`, either completed or been cancelled, its `shutdown` has returned and
its transport is closed.  (The two seconds are the two possible roundings of `ceil_timeout`,
absent for `T ≤ 5 s` by `deadline_le`.  `hs`: a handler that is still running will write its
response in one piece; the model also bounds the streamed case, not proved here.) -/
theorem cancelled_by_2T (F : Nat) (c : Conn) (ts T : Nat) (hT : 0 < T)
    (hcur : c.cur ≠ .idle) (hs : c.sendDur = 0) :
    Closed (advance (F + 3) (ts + 2 * T + 2 * tps) (step c ts (.shutdownStart T))) := by
  have htps : tps = 8 := by decide
  obtain ⟨hd1n, hd1⟩ := deadline_le ts T
  cases hd : deadline ts T with
  | none => exact absurd (hd1n.mp hd) (by omega)
  | some d1 =>
  have b1 := hd1 d1 hd
  obtain ⟨_, hd2⟩ := deadline_le d1 T
  cases hdd : deadline d1 T with
  | none => exact absurd ((deadline_le d1 T).1.mp hdd) (by omega)
  | some d2 =>
  have b2 := hd2 d2 hdd
  have hc2 : step c ts (.shutdownStart T) = { c with forceClose := true, T := T, sd := .wait1 (some d1) } := by
    simp [step, hcur, hd]
  rw [hc2]
  cases hc : c.cur with
  | idle => exact absurd hc hcur
  | waitBody d =>
    rw [advance_fire (F + 2) _ _ d1 .timeout (by simp [nextInternal, hc]) (by omega)]
    apply closed_advance
    simp only [fire, hc]
    exact finishShutdown_closed _ _ rfl
  | sleeping fin =>
    exact running_closed F _ fin d1 d2 _ rfl hs rfl hdd (Or.inl rfl) (by omega) (by omega)
  | sleepRead fin =>
    exact running_closed F _ fin d1 d2 _ rfl hs rfl hdd (Or.inr (Or.inl rfl)) (by omega) (by omega)
  | sending fin =>
    exact running_closed F _ fin d1 d2 _ rfl hs rfl hdd (Or.inr (Or.inr rfl)) (by omega) (by omega)

/-! ## every connection is closed when cleanup returns -/

def isDone : Obs → Bool
  | .done _ => true
  | _ => false

/-- invariant of every reachable connection state: a running `shutdown` implies
`_force_close`; once `shutdown` has returned the handler is gone and the transport closed -/
structure Sound (c : Conn) : Prop where
  force : c.sd ≠ .none → c.forceClose = true
  fin : c.obs.any isDone = true → c.sd = .done ∧ c.cur = .idle ∧ c.transportOpen = false ∧ c.taskAlive = false

theorem sound_init : Sound {} := ⟨by simp, by simp⟩

theorem finishShutdown_sound (c : Conn) (t : Nat) (hcur : c.cur = .idle) (hf : c.forceClose = true) :
    Sound (finishShutdown c t) := by
  refine ⟨fun _ => ?_, fun _ => ⟨rfl, ?_, ?_, rfl⟩⟩
  · simp only [finishShutdown, closeTransport]; split <;> exact hf
  · exact (finishShutdown_closed c t hcur).cur
  · exact (finishShutdown_closed c t hcur).tr

theorem afterHandler_sd (c : Conn) (t : Nat) : (afterHandler c t).sd = c.sd := by
  simp only [afterHandler, startReq, closeTransport]
  split
  · split <;> rfl
  · split
    · rfl
    · split <;> rfl

theorem afterHandler_done (c : Conn) (t : Nat) :
    (afterHandler c t).obs.any isDone = c.obs.any isDone := by
  simp only [afterHandler, startReq, closeTransport]
  split
  · split
    · simp [isDone, List.any_append]
    · rfl
  · split
    · rfl
    · split
      · simp [isDone, List.any_append]
      · rfl

theorem afterHandler_force (c : Conn) (t : Nat) : (afterHandler c t).forceClose = c.forceClose := by
  simp only [afterHandler, startReq, closeTransport]
  split
  · split <;> rfl
  · split
    · rfl
    · split <;> rfl

theorem requestDone_sound (c : Conn) (t : Nat) (h : Sound c) (hnd : c.obs.any isDone = false) :
    Sound (requestDone c t) := by
  cases hsd : c.sd with
  | none =>
    have e : requestDone c t = afterHandler c t := by
      simp only [requestDone]; rw [afterHandler_sd]; simp [hsd]
    rw [e]
    exact ⟨fun hs => by rw [afterHandler_sd] at hs; exact absurd hsd hs,
      fun hd => by rw [afterHandler_done, hnd] at hd; cases hd⟩
  | done =>
    have e : requestDone c t = afterHandler c t := by
      simp only [requestDone]; rw [afterHandler_sd]; simp [hsd]
    rw [e]
    exact ⟨fun _ => by rw [afterHandler_force]; exact h.force (by simp [hsd]),
      fun hd => by rw [afterHandler_done, hnd] at hd; cases hd⟩
  | wait1 d =>
    have hf := h.force (by simp [hsd])
    have e : requestDone c t = finishShutdown { c with cur := .idle, taskAlive := false } t := by
      simp [requestDone, afterHandler, hf, hsd]
    rw [e]
    exact finishShutdown_sound _ _ rfl hf
  | wait2 d =>
    have hf := h.force (by simp [hsd])
    have e : requestDone c t = finishShutdown { c with cur := .idle, taskAlive := false } t := by
      simp [requestDone, afterHandler, hf, hsd]
    rw [e]
    exact finishShutdown_sound _ _ rfl hf

theorem fire_sound (c : Conn) (u : Nat) (ev : Internal) (h : Sound c)
    (hn : nextInternal c = some (u, ev)) : Sound (fire c u ev) := by
  -- a finished connection has no internal event left
  have hnd : c.obs.any isDone = false := by
    cases hd : c.obs.any isDone with
    | false => rfl
    | true =>
      obtain ⟨h1, h2, _, _⟩ := h.fin hd
      simp [nextInternal, h1, h2] at hn
  cases ev with
  | handlerDone =>
    have hR : ∀ (fc : Bool) (l : List Obs), (fc = true ∨ fc = c.forceClose) → l.any isDone = false →
        Sound (requestDone { c with forceClose := fc, obs := c.obs ++ l } u) := by
      intro fc l hfc hl
      refine requestDone_sound _ _ ⟨fun hs => ?_, fun hd => ?_⟩ (by simp [List.any_append, hnd, hl])
      · rcases hfc with rfl | rfl
        · rfl
        · exact h.force hs
      · simp [List.any_append, hnd, hl] at hd
    simp only [fire]
    split
    · split
      · exact hR _ _ (Or.inr rfl) (by simp [isDone])
      · exact hR _ _ (Or.inr rfl) (by simp)
    · split
      · exact hR _ _ (Or.inl rfl) (by simp [isDone])
      · split
        · exact hR _ _ (Or.inr rfl) (by simp [isDone])
        · exact hR _ _ (Or.inr rfl) (by simp [isDone])
    · split
      · split
        · exact hR _ _ (Or.inr rfl) (by simp [isDone])
        · exact hR _ _ (Or.inr rfl) (by simp [isDone])
      · exact ⟨fun hs => h.force hs, by simp [List.any_append, hnd, isDone]⟩
  | timeout =>
    cases hsd : c.sd with
    | none => simpa [fire, hsd] using h
    | done => simpa [fire, hsd] using h
    | wait1 d =>
      have hf := h.force (by simp [hsd])
      cases hc : c.cur with
      | waitBody b =>
        simp only [fire, hsd, hc]
        exact finishShutdown_sound _ _ rfl hf
      | idle =>
        simp only [fire, hsd, hc]
        exact ⟨fun _ => hf, by simp [hnd]⟩
      | sleeping f =>
        simp only [fire, hsd, hc]
        exact ⟨fun _ => hf, by simp [hnd]⟩
      | sleepRead f =>
        simp only [fire, hsd, hc]
        exact ⟨fun _ => hf, by simp [hnd]⟩
      | sending f =>
        simp only [fire, hsd, hc]
        exact ⟨fun _ => hf, by simp [hnd]⟩
    | wait2 d =>
      have hf := h.force (by simp [hsd])
      simp only [fire, hsd]
      split
      · next hi => exact finishShutdown_sound _ _ hi hf
      · exact finishShutdown_sound _ _ rfl hf

theorem step_sound (c : Conn) (t : Nat) (l : Label) (h : Sound c) : Sound (step c t l) := by
  cases l with
  | recvPartial => exact h
  | recv rs =>
    simp only [step]
    split
    · exact h
    · next hflags =>
      simp only [Bool.or_eq_true, Bool.not_eq_true', not_or, Bool.not_eq_true] at hflags
      have hnd : c.obs.any isDone = false := by
        cases hd : c.obs.any isDone with
        | false => rfl
        | true => have := (h.fin hd).2.2.1; simp [this] at hflags
      split
      · split
        · exact ⟨fun hs => by simpa [startReq] using h.force (by simpa [startReq] using hs),
            by simp [startReq, hnd, isDone, List.any_append]⟩
        · exact ⟨fun hs => h.force hs, by simp [hnd]⟩
      · exact ⟨fun hs => h.force hs, by simp [hnd]⟩
  | recvBody =>
    simp only [step]
    split
    · exact h
    · next hflags =>
      simp only [Bool.or_eq_true, Bool.not_eq_true', not_or, Bool.not_eq_true] at hflags
      have hnd : c.obs.any isDone = false := by
        cases hd : c.obs.any isDone with
        | false => rfl
        | true => have := (h.fin hd).2.2.1; simp [this] at hflags
      split
      · exact ⟨fun hs => h.force hs, by simp [hnd]⟩
      · exact h
  | preShutdown =>
    simp only [step]
    split
    · exact ⟨fun hs => h.force hs, fun hd => by
        obtain ⟨a, b, c', _⟩ := h.fin hd
        exact ⟨a, b, c', rfl⟩⟩
    · exact ⟨fun hs => h.force hs, fun hd => h.fin hd⟩
  | shutdownStart T =>
    simp only [step]
    split
    · next hi =>
      split
      · next hta =>
        refine ⟨fun _ => rfl, fun hd => ?_⟩
        have := (h.fin hd).2.2.2
        rw [this] at hta; cases hta
      · exact finishShutdown_sound _ _ hi rfl
    · next hi =>
      refine ⟨fun _ => rfl, fun hd => ?_⟩
      exact absurd (h.fin hd).2.1 hi

theorem findSome_done (l : List Obs) (t : Nat)
    (h : l.findSome? (fun o => match o with | .done t => some t | _ => none) = some t) :
    l.any isDone = true := by
  induction l with
  | nil => simp at h
  | cons o l ih =>
    cases o <;> simp_all [List.findSome?, isDone]

theorem returnTime_some (ts : Nat) (cs : List Conn) (r : Nat) (h : returnTime ts cs = some r) :
    ∀ c ∈ cs, ∃ t, doneTime c = some t := by
  induction cs generalizing r with
  | nil => simp
  | cons c cs ih =>
    simp only [returnTime] at h
    cases hd : doneTime c with
    | none => simp [hd] at h
    | some d =>
      cases hr : returnTime ts cs with
      | none => simp [hd, hr] at h
      | some r' =>
        intro c' hc'
        simp only [List.mem_cons] at hc'
        rcases hc' with rfl | hc'
        · exact ⟨d, hd⟩
        · exact ih r' hr c' hc'

theorem runConn_sound (T t0 ds : Nat) (script : List (Nat × Label)) : Sound (runConn T t0 ds script) := by
  simp only [runConn]
  exact settle_induction Sound fire_sound _ _
    (runFrom_induction Sound fire_sound step_sound _ _ _ sound_init)

/-- **Every connection is closed when cleanup returns — all scenarios.**  Whatever the
connections were doing (any client scripts, any timeout, any duration of the `on_shutdown`
handlers): if `Server.shutdown` — and with it `runner.cleanup()` — returns at all, every
connection's transport has been closed and no handler is left running. -/
theorem all_closed_when_cleanup_returns (T t0 ds : Nat) (scripts : List (List (Nat × Label))) (r : Nat)
    (h : returnTime (t0 + ds) (scripts.map (runConn T t0 ds)) = some r) :
    ∀ c ∈ scripts.map (runConn T t0 ds), c.transportOpen = false ∧ c.cur = .idle := by
  intro c hc
  obtain ⟨t, ht⟩ := returnTime_some _ _ r h c hc
  simp only [List.mem_map] at hc
  obtain ⟨sc, _, rfl⟩ := hc
  have hs := runConn_sound T t0 ds sc
  have := hs.fin (findSome_done _ t ht)
  exact ⟨this.2.2.1, this.2.1⟩

/-! ## counterexamples on the model of the unchanged code (kernel-checked) -/

/-- **Idle connections stay open while `on_shutdown` runs.**  Keep-alive connection idle
since tick 3, shutdown at tick 16, `on_shutdown` handlers take 24 ticks (3 s): the transport
is closed at tick 40, not at 16 (the documentation lists closing idle connections as step 2,
before `on_shutdown`). -/
theorem idle_open_until_on_shutdown_done :
    (runConn 80 16 24 [(0, .recv [⟨.get, 3, 0⟩])]).obs =
      [.hs 0, .hr 3, .resp 3, .close 40, .done 40] := by
  decide +kernel

/-- **`shutdown_timeout = 0` disables both deadlines.**  A handler waiting for its body is
never cancelled and `runner.cleanup()` never returns; a sleeping one is simply awaited. -/
theorem zero_timeout_never_returns :
    (runConn 0 16 0 [(8, .recv [⟨.postPart, 1, 0⟩])]).obs = [.hs 8] ∧
    returnTime 16 [runConn 0 16 0 [(8, .recv [⟨.postPart, 1, 0⟩])]] = none ∧
    (runConn 0 16 0 [(8, .recv [⟨.get, 801, 0⟩])]).obs =
      [.hs 8, .hr 809, .resp 809, .close 809, .done 809] := by
  decide +kernel

/-- **F20, concretely.**  `POST` with half of its body at tick 8, shutdown at 16 with
`T = 10 s`, the client sends the rest at tick 24: the handler never gets it and is cancelled
at tick 96 (first deadline); no response. -/
theorem f20_body_dropped :
    (runConn 80 16 0 [(8, .recv [⟨.postPart, 1, 0⟩]), (24, .recvBody)]).obs =
      [.hs 8, .hx 96, .close 96, .done 96] := by
  decide +kernel

/-- **A handler that reads its (already buffered) body late, inside the timeout, completes.**
`POST` whose whole body arrived with the head at tick 8, the handler reads it at tick 41,
shutdown at 16 with `T = 10 s`: the body is still readable (`_current_request._cancel` only
happens when the first timeout expires, tick 96), response complete at 41.  Read after tick
96 it would be cancelled (second conjunct). -/
theorem late_reader_within_timeout_completes :
    (runConn 80 16 0 [(8, .recv [⟨.postLate, 33, 0⟩])]).obs =
      [.hs 8, .hr 41, .resp 41, .close 41, .done 41] ∧
    (runConn 80 16 0 [(8, .recv [⟨.postLate, 113, 0⟩])]).obs =
      [.hs 8, .hx 121, .close 121, .done 121] := by
  decide +kernel

/-- **A streamed response that is being written at the shutdown moment is completed.**  The
handler returned at tick 11 (before the shutdown at 16), its body takes until tick 41: the
transport stays open (`close()` only sets `_close`), the complete response arrives at 41. -/
theorem streamed_response_within_timeout_completes :
    (runConn 80 16 0 [(8, .recv [⟨.get, 3, 30⟩])]).obs =
      [.hs 8, .hr 11, .resp 41, .close 41, .done 41] := by
  decide +kernel

/-! ## the hypotheses are satisfiable (non-vacuity) -/

/-- a reachable connection with a running handler (GET at tick 8, handler sleeps 33 ticks):
hypotheses of `inflight_may_finish` and `cancelled_by_2T` -/
example :
    let c := step {} 8 (.recv [⟨.get, 33, 0⟩])
    c.cur = .sleeping 41 ∧ c.transportOpen = true ∧ c.sd = .none ∧ c.forceClose = false ∧ c.cur ≠ .idle := by
  decide +kernel

/-- a reachable connection whose handler waits for its body, marked by `pre_shutdown`:
hypotheses of `inflight_body_never_completes` and `no_new_requests_after_shutdown` -/
example :
    let c := step (step {} 8 (.recv [⟨.postPart, 3, 0⟩])) 16 .preShutdown
    c.closeFlag = true ∧ c.cur = .waitBody 3 := by
  decide +kernel

/-- a fresh connection is idle and open: hypotheses of `idle_closed_at_shutdown` -/
example : ({} : Conn).cur = .idle ∧ ({} : Conn).sd = .none ∧ ({} : Conn).transportOpen = true := by
  decide

/-- a scenario in which cleanup returns: hypothesis of `all_closed_when_cleanup_returns` -/
example : returnTime (16 + 0) ([[(8, .recv [⟨.get, 33, 0⟩])], []].map (runConn 80 16 0)) = some 41 := by
  decide +kernel

end Aio.C20.Drain
