import AioProps.C02Lemmas
/-!
# C02 — property theorems (wire round trip between two aiohttp endpoints)

Model: `AioModel/C02.lean` (decision layers of both ends), `AioModel/Http.lean` (receive side),
`AioModel/C04.lean` (writer).
-/
namespace Aio.C02
open Aio

/-- **The receive-side cascade used below is the one of the shared parser model.**  Whenever
`HttpParser.feed_data` (model `Aio.Http.onHeaderBlock`) accepts a header block, the payload it
sets up — none / `Content-Length` bytes / chunked / until end of connection —, whether the
message carries a payload stream and whether the connection is upgraded are exactly
`cascade cfg msg length`, for every configuration (request or response parser) and every
header block.  So every theorem about `cascade` is a theorem about the validated parser model. -/
theorem onHeaderBlock_eq_cascade (cfg : Http.Cfg) (urlOk : Bool → Bytes → Bool) (st : Http.St)
    (lines : List Bytes) (msg : Http.Msg) (length : Option Nat) (hst : st.upgraded = false) (hpl : st.payload = none)
    (hp : (if cfg.response then Http.parseResponse cfg lines else Http.parseRequest cfg urlOk lines) = .ok msg)
    (hl : Http.contentLength msg.headers = .ok length)
    (hk : Http.hasName msg.headers Http.bSecWsKey1 = false) :
    ∃ st' evs, Http.onHeaderBlock cfg urlOk st lines = .ok (st', evs, msg.shouldClose) ∧
      viewOf (st', evs, msg.shouldClose) = cascade cfg msg length := by
  unfold Http.onHeaderBlock
  simp only [hp, hl, hk]
  unfold cascade
  rcases st with ⟨l, t, u, pu, pl, sc, f⟩
  simp only at hst hpl
  subst hst hpl
  dsimp only
  generalize (Http.isEmptyBodyStatus msg.code ||
    (cfg.response && Http.isEmptyBodyMethod cfg.respMethod)) = eb
  generalize ((if cfg.response then cfg.respMethod else msg.method) == Http.bCONNECT) = isC
  generalize (msg.upgrade && Http.supportedUpgrade msg.headers) = up
  clear hl
  cases length with
  | none =>
    cases eb <;> cases isC <;> cases up <;> cases hch : msg.chunked <;> cases hw : cfg.withBody <;>
      cases hr : cfg.readUntilEof <;> simp [viewOf] <;> (try (refine ⟨_, _, ⟨rfl, rfl⟩, ?_⟩; simp))
  | some n =>
    rcases Nat.eq_zero_or_pos n with hn | hn
    · subst hn
      cases eb <;> cases isC <;> cases up <;> cases hch : msg.chunked <;> cases hw : cfg.withBody <;>
        cases hr : cfg.readUntilEof <;> simp [viewOf] <;> (try (refine ⟨_, _, ⟨rfl, rfl⟩, ?_⟩; simp))
    · have hd : decide (n > 0) = true := by simpa using hn
      cases eb <;> cases isC <;> cases up <;> cases hch : msg.chunked <;> cases hw : cfg.withBody <;>
        cases hr : cfg.readUntilEof <;> simp [viewOf, hd, hn] <;> (try (refine ⟨_, _, ⟨rfl, rfl⟩, ?_⟩; simp))
/-- **Framing agreement, response direction.**  For every response the server-side preparation
accepts — any version, method (except CONNECT), status, `web.Response` with no / bytes / sized
or unsized payload body or a `StreamResponse`/`FileResponse`, with or without user
Content-Length, `enable_chunked_encoding`, `enable_compression` (any coding, any
Accept-Encoding), any keep-alive inputs — used admissibly (`RespAdmissible`: the handler
writes what it declared and nothing on a bodiless response), the framing the client's parser
derives from the emitted headers is the framing of the bytes the writer puts on the wire:
chunked ⇔ chunked, exactly `n` bytes ⇔ `Content-Length: n` bytes expected, nothing ⇔ nothing.
When the client reads until the connection closes, the writer indeed has neither length nor
chunking (raw bytes follow).
The hypothesis `hz` excludes a *compressing writer on a response that must be empty*: there the
unchanged code emits the compressor's trailer after the head — see
`resp_framing_disagree_compress_on_bodiless` (finding). -/
theorem resp_framing_agree (x : RespIn) (streamed : Nat) (v : RespVerdict)
    (h : respVerdict x streamed = .ok v) (ha : RespAdmissible x streamed)
    (hz : ¬ (v.out.emptyBody = true ∧ v.out.wcompress = true)) :
    (v.view.framing ≠ .untilClose → v.wire = v.view.framing) ∧
    (v.view.framing = .untilClose → (v.wire = .none ∨ v.wire = .untilClose) ∧ v.out.wlength = none ∧ v.out.wchunked = false) := by
  obtain ⟨hnc, hcl, hsize, hempty, hzpos⟩ := ha
  unfold respVerdict at h
  split at h
  · cases h
  · rename_i o ho
    simp only at h
    injection h with h
    subst h
    simp only at hz ⊢
    obtain ⟨p, hpc, heb, hwz, hbz, hocl, hshape⟩ := respPrep_shape x o ho
    rw [clientView_framing _ _ _ _ hnc]
    rw [← mustBeEmptyBody_eq _ _ hnc, ← heb]
    simp only [respRecvHdr]
    rcases hshape with ⟨he, hwc, hte, _⟩ | ⟨he, hwc, hte, hwl, _⟩ | ⟨he, hwc, hte, hxc, hwl, hrest⟩
    · -- the response must be empty
      simp only [he, if_true]
      have hsent : (respSent x o streamed).1 = 0 := by
        unfold respSent
        have : o.wcompress = false := by
          cases hw : o.wcompress
          · rfl
          · exact absurd ⟨he, hw⟩ hz
        simp only [this, he]
        cases hr : x.isResponse
        · simp; exact hempty (heb ▸ he) hr
        · simp
      unfold writerFraming
      simp only [hwc, hsent]
      cases o.wlength <;> simp
    · simp [he, hte, hwc, writerFraming]
    · have heb' : mustBeEmptyBody x.method x.status = false := heb ▸ he
      have hclp : p.cl = contentLengthProp x p := cl_eq_prop x p hpc heb' hxc
      have hocl' : o.cl = o.wlength := by rw [hocl, he, hwl, hclp]; simp
      simp only [he, hte, hwc, hocl', Bool.false_eq_true, if_false]
      unfold writerFraming
      simp only [hwc, Bool.false_eq_true, if_false]
      rcases hrest with ⟨n, hn, _⟩ | ⟨hn, hg, _, _⟩
      · have hk := sent_eq x o p streamed n hpc heb' hxc hwz hbz he hcl hsize (hwl ▸ hn)
        simp only [hn]
        generalize respSent x o streamed = sp at hk
        rcases sp with ⟨sent, trunc⟩
        simp only at hk ⊢
        rw [hk]
        rcases Nat.eq_zero_or_pos n with h0 | h0
        · subst h0; simp
        · have : ¬ n = 0 := by omega
          simp [h0, this]
      · simp only [hn]
        constructor
        · intro hc; exact absurd rfl hc
        · intro _
          refine ⟨?_, by simp [hn], by simp [hwc]⟩
          by_cases h0 : (respSent x o streamed).1 = 0 <;> simp [h0]


/-
Full statement (FALSE on the unchanged code, see the two counterexample theorems below):

  theorem keepalive_agree (h : respVerdict x streamed = .ok v) (hnc : x.method ≠ bCONNECT)
      (hv : x.ver = ⟨1, 1⟩ ∨ x.ver = ⟨1, 0⟩) (huc : x.userConn = none) :
      serverKeeps v.out = !v.clientClose
-/
/-- **Both ends reach the same keep-alive decision** (`_partial`): for every accepted response
on HTTP/1.0 or 1.1 without an application-supplied `Connection` header, the server keeps the
connection (`resp.keep_alive`, consulted by `RequestHandler.start`) iff the client's parser does
not ask to close it (`RawResponseMessage.should_close` → `ResponseHandler.should_close`) —
*except* in the two situations excluded by `hF11` (HTTP/1.1 HEAD answered without
Content-Length: finding F11) and `hF21` (body delimited by connection close while
`resp.keep_alive` stays true: HTTP/1.0 keep-alive request answered without a length). -/
theorem keepalive_agree_partial (x : RespIn) (streamed : Nat) (v : RespVerdict)
    (h : respVerdict x streamed = .ok v) (hnc : x.method ≠ bCONNECT)
    (hv : x.ver = ⟨1, 1⟩ ∨ x.ver = ⟨1, 0⟩) (huc : x.userConn = none)
    (hF11 : ¬ (x.ver = ⟨1, 1⟩ ∧ Http.isEmptyBodyMethod x.method = true ∧ Http.isEmptyBodyStatus x.status = false ∧
      v.out.cl = none))
    (hF21 : Gen.C02.closeDelimitedClearsKeepAlive = false →
      ¬ (v.out.emptyBody = false ∧ v.out.wchunked = false ∧ v.out.wlength = none ∧ v.out.keepAlive = true)) :
    serverKeeps v.out = !v.clientClose := by
  unfold respVerdict at h
  split at h
  · cases h
  · rename_i o ho
    simp only at h
    injection h with h
    subst h
    simp only at hF11 hF21 ⊢
    obtain ⟨p, hpc, heb, hwz, hbz, hocl, hshape⟩ := respPrep_shape x o ho
    unfold clientView serverKeeps
    simp only [respClose_eq, respRecvHdr, huc, Option.isSome_none, Bool.false_eq_true, if_false]
    rw [mustBeEmptyBody_eq _ _ hnc] at heb
    rcases hshape with ⟨he, hwc, hte, hconn⟩ | ⟨he, hwc, hte, hwl, hconn⟩ | ⟨he, hwc, hte, hxc, hwl, hrest⟩
    · rw [hconn, hte]
      unfold connOf
      rcases hv with hv | hv
      · cases hk : o.keepAlive <;> cases hs : Http.isEmptyBodyStatus x.status <;> cases hc : o.cl <;>
          simp [hv, huc, Ver.is10, Ver.is11, Http.versionLe10]
        · exfalso
          apply hF11
          refine ⟨hv, ?_, hs, hc⟩
          rw [he, hs] at heb
          simpa using heb.symm
      · cases hk : o.keepAlive <;> simp [hv, huc, Ver.is10, Ver.is11, Http.versionLe10]
    · rw [hconn, hte]
      unfold connOf
      rcases hv with hv | hv
      · cases hk : o.keepAlive <;> cases hs : Http.isEmptyBodyStatus x.status <;>
          simp [hv, huc, Ver.is10, Ver.is11, Http.versionLe10]
      · cases hk : o.keepAlive <;> simp [hv, huc, Ver.is10, Ver.is11, Http.versionLe10]
    · rcases hrest with ⟨n, hn, hconn⟩ | ⟨hn, hg, hconn, hfl⟩
      · have heb' : mustBeEmptyBody x.method x.status = false := by
          rw [mustBeEmptyBody_eq _ _ hnc, ← heb, he]
        have hclp : p.cl = contentLengthProp x p := cl_eq_prop x p hpc heb' hxc
        have hocl' : o.cl = some n := by rw [hocl, he, hclp, ← hwl, hn]; simp
        rw [hconn, hte, hocl']
        unfold connOf
        rcases hv with hv | hv
        · cases hk : o.keepAlive <;> cases hs : Http.isEmptyBodyStatus x.status <;>
            simp [hv, huc, Ver.is10, Ver.is11, Http.versionLe10]
        · cases hk : o.keepAlive <;> simp [hv, huc, Ver.is10, Ver.is11, Http.versionLe10]
      · have hk : o.keepAlive = false := by
          cases hfv : Gen.C02.closeDelimitedClearsKeepAlive
          · cases hk : o.keepAlive
            · rfl
            · exact absurd ⟨he, hwc, hn, hk⟩ (hF21 hfv)
          · exact hfl hfv
        rw [hconn, hk]
        unfold connOf
        rcases hv with hv | hv
        · simp [hv, Ver.ge11] at hg
        · simp [hv, huc, Ver.is10, Ver.is11, Http.versionLe10]


/-
Full statement (FALSE on the unchanged code, see `req_framing_disagree_chunked_false` and
`req_framing_disagree_chunked_true_without_body`): the same without `hF22`, `hF22b`.
-/
/-- **Framing agreement, request direction** (`_partial`): for every request `ClientRequest`
accepts — any version, method (except CONNECT; HEAD only without body), `data` of any kind
(none / sized / unsized payload, falsy or truthy), `chunked` ∈ {None, True}, any `compress`,
`expect100`, connector `force_close` — with framing headers left to aiohttp and an honest
payload size, the framing the server's parser derives from the emitted headers equals the
framing of the bytes the client's writer emits.  Excluded: `chunked=False` as long as `_create_writer` tests
`chunked is not None` (`hF22`, conditional on the flag probed from the source — with the
repaired code the theorem covers `chunked=False`), and `chunked=True` on a GET-class request
without data (`hF22b`), where the writer chunk-frames a body the headers do not announce.
Since 766fe91 a HEAD request's body is framed like any other (no HEAD hypothesis). -/
theorem req_framing_agree_partial (x : ReqIn) (actual : Nat) (v : ReqVerdict)
    (h : reqVerdict x actual = .ok v) (ha : ReqAdmissible x actual)
    (hF22 : Gen.C02.writerChunksWhenNotNone = true → x.chunked ≠ some false)
    (hF22b : ¬ (x.chunked = some true ∧ x.hasData = false ∧ isGetMethod x.method = true)) :
    v.wire = v.view.framing := by
  obtain ⟨hnc, htr, hnd, hsz, hucl, hute⟩ := ha
  unfold reqVerdict at h
  split at h
  · cases h
  · rename_i o ho
    simp only at h
    injection h with h
    subst h
    simp only
    rw [serverView_framing _ _ _ hnc]
    unfold reqPrep at ho
    split at ho
    · cases ho
    rename_i o' ho'
    injection ho with ho
    subst ho
    have ho := ho'
    clear ho'
    unfold reqCore at ho
    rcases x with ⟨ver, method, hasData, dataTruthy, size, chunked, compress, expect100, userCL, userTE, userCE, userConn, userExpect, cfc, limited⟩
    simp only at *
    subst hucl hute
    generalize hg : isGetMethod method = g at *
    generalize he : (expect100 || userExpect) = e at *
    generalize hfl : Gen.C02.writerChunksWhenNotNone = fl at *
    split at ho
    · cases ho
    · rename_i comp ch h1
      have hch : (ch = chunked ∧ comp = none) ∨ (ch = some true ∧ dataTruthy = true) := by
        cases dataTruthy <;> cases userCE <;> cases compress <;> simp at h1 <;>
          (try (obtain ⟨h1a, h1b⟩ := h1; subst h1a h1b)) <;> simp
      clear h1
      have hch' : ch = none ∨ ch = some true ∨ (ch = some false ∧ fl = false) := by
        rcases hch with ⟨h, _⟩ | ⟨h, _⟩
        · subst h
          rcases ch with _ | b
          · exact Or.inl rfl
          · cases b
            · refine Or.inr (Or.inr ⟨rfl, ?_⟩)
              cases fl
              · rfl
              · exact absurd rfl (hF22 rfl)
            · exact Or.inr (Or.inl rfl)
        · exact Or.inr (Or.inl h)
      have hd : ch = some true → hasData = false → chunked = some true := by
        intro h1 h2
        rcases hch with ⟨h, _⟩ | ⟨_, h⟩
        · rw [← h]; exact h1
        · have := htr h; rw [h2] at this; cases this
      clear hch htr hF22
      rcases hch' with hc | hc | ⟨hc, hf⟩
      · subst hc
        cases hasData <;> cases g <;> rcases size with _ | s <;> cases e <;> cases fl <;>
          simp [truthy] at ho hd hF22b <;> (try (subst ho)) <;>
          simp [writerFraming, reqSent, reqRecvHdr, truthy] <;> (try (have := hnd rfl)) <;>
          (try (have := hsz s rfl)) <;> (try omega) <;>
          (try (subst this; by_cases h0 : s = 0 <;> simp [h0] <;> omega))
      · subst hc
        cases hasData <;> cases g <;> rcases size with _ | s <;> cases e <;> cases fl <;>
          simp [truthy] at ho hd hF22b <;> (try (subst ho)) <;>
          simp [writerFraming, reqSent, reqRecvHdr, truthy] <;> (try (have := hnd rfl)) <;>
          (try (have := hsz s rfl)) <;> (try omega) <;>
          (try (subst this; by_cases h0 : s = 0 <;> simp [h0] <;> omega)) <;>
          (try exact absurd hd hF22b)
      · subst hc hf
        cases hasData <;> cases g <;> rcases size with _ | s <;> cases e <;>
          simp [truthy] at ho hd hF22b <;> (try (subst ho)) <;>
          simp [writerFraming, reqSent, reqRecvHdr, truthy] <;> (try (have := hnd rfl)) <;>
          (try (have := hsz s rfl)) <;> (try omega) <;>
          (try (subst this; by_cases h0 : s = 0 <;> simp [h0] <;> omega))


/-! ## invalid combinations raise -/

/-- **Invalid response configurations are refused, and only those.**  `prepare()` fails exactly
when (a) chunked encoding was enabled together with a Content-Length, (b) chunked encoding was
enabled for a request that is not HTTP/1.1, or (c) whole-body compression was requested for a
`web.Response` that has no body; in every other case it succeeds. -/
theorem resp_invalid_raise (x : RespIn) :
    (x.chunked = true → x.userCL.isSome = true → respPrep x = .error .chunkedWithCL) ∧
    (x.chunked = true → x.userCL = none → x.ver.is11 = false → respPrep x = .error .chunkedNot11) ∧
    ((∃ e, respPrep x = .error e) →
      (x.chunked = true ∧ x.userCL.isSome = true) ∨ (x.chunked = true ∧ x.ver.is11 = false) ∨
      (x.isResponse = true ∧ x.body = .none ∧ x.chunked = false ∧ startCompression x ≠ none)) := by
  refine ⟨?_, ?_, ?_⟩
  · intro h1 h2
    simp [respPrep, respApiCheck, h1, h2]
  · intro h1 h2 h3
    unfold respPrep respApiCheck
    simp only [h1, h2, Option.isSome_none, Bool.and_false, Bool.false_eq_true, if_false]
    cases hs : startCompression x with
    | none => simp [h3]
    | some c =>
      unfold doStartCompression
      cases c <;> simp [h1, h3]
  · rintro ⟨e, he⟩
    unfold respPrep at he
    split at he
    · rename_i e' hq
      left
      unfold respApiCheck at hq
      split at hq
      · rename_i hcond; simpa using hcond
      · cases hq
    · dsimp only at he
      split at he
      · rename_i e' hq
        right; right
        cases hs : startCompression x with
        | none => simp [hs] at hq
        | some c =>
          simp only [hs] at hq
          unfold doStartCompression at hq
          cases hr : x.isResponse <;> cases hc : x.chunked <;> cases hb : x.body <;> cases c <;>
            simp [hr, hc, hb] at hq <;> simp
      · split at he
        · rename_i hq
          right; left
          simpa using hq
        · cases he

/-- **Invalid request configurations are refused** by `ClientRequest.__init__`: `compress`
together with a Content-Encoding header, an unknown `compress` string, `chunked=True`
together with a `Transfer-Encoding: chunked` or a `Content-Length` header. -/
theorem req_invalid_raise (x : ReqIn) :
    (x.dataTruthy = true → x.userCE = true → x.compress ≠ .off → reqPrep x = .error .compressWithCE) ∧
    (x.dataTruthy = true → x.userCE = false → x.compress = .bad → reqPrep x = .error .compressBad) ∧
    (x.compress = .off → x.chunked = some true → x.hasData = true → x.userTEchunked = true →
      reqPrep x = .error .chunkedWithTE) ∧
    (x.compress = .off → x.chunked = some true → x.hasData = true → x.userTEchunked = false →
      x.userCL.isSome = true → reqPrep x = .error .chunkedWithCL) := by
  refine ⟨?_, ?_, ?_, ?_⟩
  · intro h1 h2 h3
    unfold reqPrep reqCore
    cases hc : x.compress <;> simp_all
  · intro h1 h2 h3
    unfold reqPrep reqCore
    simp [h1, h2, h3]
  · intro h1 h2 h3 h4
    unfold reqPrep reqCore
    cases hd : x.dataTruthy <;> cases hu : x.userCE <;> simp [h1, h2, h3, h4, truthy]
  · intro h1 h2 h3 h4 h5
    unfold reqPrep reqCore
    cases hd : x.dataTruthy <;> cases hu : x.userCE <;> simp [h1, h2, h3, h4, h5, truthy]

/-! ## keep-alive, request direction -/

/-- **The server reads the client's intention.**  Without an application-supplied `Connection`
header, on HTTP/1.0 and 1.1, `request.keep_alive` is false exactly when the client's connector
is in `force_close` mode (the header `_send` adds for the version makes the server's
`parse_message` reach that conclusion). -/
theorem req_keepalive_agree (x : ReqIn) (actual : Nat) (v : ReqVerdict)
    (h : reqVerdict x actual = .ok v) (huc : x.userConn = none)
    (hv : x.ver = ⟨1, 1⟩ ∨ x.ver = ⟨1, 0⟩) :
    v.serverClose = x.connForceClose := by
  unfold reqVerdict at h
  split at h
  · cases h
  · rename_i o ho
    simp only at h
    injection h with h
    subst h
    have hconn : o.conn = (if x.connForceClose then (if x.ver.is11 then some true else none)
        else if x.ver.is10 then some false else none) := by
      unfold reqPrep at ho
      split at ho
      · cases ho
      · injection ho with ho
        subst ho
        simp [reqConn, huc]
    simp only [serverView, reqRecvHdr, huc, Option.isSome_none, Bool.false_eq_true, if_false, hconn, reqClose]
    rcases hv with hv | hv <;> cases hc : x.connForceClose <;>
      simp [hv, Ver.is11, Ver.is10, Http.versionLe10]

/-! ## counterexamples (findings on the unchanged code), kernel-checked -/

/-- F11: `HEAD` on HTTP/1.1 answered by an empty `web.Response()`: no Content-Length /
Transfer-Encoding is sent; the server keeps the connection, the client closes it. -/
theorem keepalive_disagree_head_without_framing_headers :
    ∃ v, respVerdict { ver := ⟨1, 1⟩, method := bHEAD, status := 200, isResponse := true } 0 = .ok v ∧
      v.out.cl = none ∧ v.out.te = false ∧ serverKeeps v.out = true ∧ v.clientClose = true := by
  refine ⟨_, rfl, ?_⟩
  decide +kernel

/-- HTTP/1.0 keep-alive request answered by a `StreamResponse` without Content-Length: the body
is delimited by the end of the connection (client reads until close, writer has neither length
nor chunking) but `resp.keep_alive` stays true — the server never closes, the response never ends. -/
theorem keepalive_disagree_http10_close_delimited (_hfl : Gen.C02.closeDelimitedClearsKeepAlive = false) :
    ∃ v, respVerdict { ver := ⟨1, 0⟩, method := ascii "GET", status := 200, isResponse := false } 3 = .ok v ∧
      v.view.framing = .untilClose ∧ v.wire = .untilClose ∧ serverKeeps v.out = true ∧ v.clientClose = true := by
  first
    | (refine ⟨_, rfl, ?_⟩; decide +kernel)
    | exact absurd _hfl (by decide)

/-- a compressing writer on a response that must be empty (`HEAD` answered by
`web.Response(body=<payload>)` with `enable_compression()`): the compressor's trailer
(`streamed` = 8 bytes) follows the head, while the client expects no body byte. -/
theorem resp_framing_disagree_compress_on_bodiless :
    ∃ v, respVerdict { ver := ⟨1, 1⟩, method := bHEAD, status := 200, isResponse := true, body := .payload (some 5),
                       compression := true, force := some .deflate } 8 = .ok v ∧
      v.out.emptyBody = true ∧ v.out.wcompress = true ∧ v.view.framing = .none ∧ v.wire = .untilClose := by
  refine ⟨_, rfl, ?_⟩
  decide +kernel

/-- `session.post(url, data=b"abc", chunked=False)` while `_create_writer` enables chunking
whenever `chunked is not None` (flag probed from the source; repaired by 5a429f0, after which
`req_framing_agree_partial` covers `chunked=False`): the headers announce `Content-Length: 3`,
the writer chunk-frames the body. -/
theorem req_framing_disagree_chunked_false (hfl : Gen.C02.writerChunksWhenNotNone = true) :
    ∃ v, reqVerdict { ver := ⟨1, 1⟩, method := ascii "POST", hasData := true, dataTruthy := true, size := some 3,
                      chunked := some false } 3 = .ok v ∧
      v.out.cl = some 3 ∧ v.out.te = false ∧ v.view.framing = .length 3 ∧ v.wire = .chunked := by
  -- holds whatever the probed flag is: vacuous once `_create_writer` tests `if self.chunked`
  first
    | exact absurd hfl (by decide)
    | (refine ⟨_, rfl, ?_⟩; decide +kernel)

/-- `session.get(url, chunked=True)` without data: no Transfer-Encoding header is sent, yet the
writer emits the chunked terminator `0\r\n\r\n` after the head. -/
theorem req_framing_disagree_chunked_true_without_body :
    ∃ v, reqVerdict { ver := ⟨1, 1⟩, method := ascii "GET", hasData := false, dataTruthy := false,
                      chunked := some true } 0 = .ok v ∧
      v.out.te = false ∧ v.view.framing = .none ∧ v.wire = .chunked := by
  refine ⟨_, rfl, ?_⟩
  decide +kernel

/-! ## the body bytes, for every segmentation of the connection -/

/-- **Identity coding, receive side, all segmentations.**  A payload parser set up for
`Content-Length: n` (`n > 0`), fed the bytes of the connection in *any* segmentation (one
`feed_data` call per segment, empty segments allowed): once `n` bytes have arrived it has
delivered exactly the first `n` bytes, reports the body complete and hands every later byte on
to the next message; before that it has delivered everything so far and is not complete. -/
theorem length_body_segments (cfg : Http.Cfg) (segs : List Bytes) (p : Http.PState) (n : Nat)
    (ht : p.type = .length) (hl : p.length = n) (hn : 0 < n) :
    payloadRun cfg p segs [] =
      if n ≤ segs.flatten.length then (segs.flatten.take n, some (segs.flatten.drop n))
      else (segs.flatten, none) := by
  have := length_run cfg segs p n [] ht hl hn
  simpa using this

/-- **Close-delimited body, all segmentations**: everything that arrives is delivered, the
parser never reports the body complete (only the end of the connection does). -/
theorem untilClose_body_segments (cfg : Http.Cfg) (segs : List Bytes) (p : Http.PState)
    (ht : p.type = .untilEof) :
    payloadRun cfg p segs [] = (segs.flatten, none) := by
  have := untilClose_run cfg segs p [] ht
  simpa using this

/-- **Round trip of a length-framed body** (composition of C04 `length_truthful` with the
receive side): the writer as `_prepare_headers` leaves it with `length = n`, any program of
`write`/`send_headers` calls offering at least `n` bytes; the bytes after the header block, cut
into any segments and followed by anything (`rest`, e.g. the next response), give the
receiver's `Content-Length: n` parser exactly the first `n` bytes written and leave `rest`
for the next message. -/
theorem response_roundtrip_length (cfg : Http.Cfg) (hb : Bytes) (n : Nat) (ops : List C04.BodyOp)
    (hhb : hb ≠ []) (hn : 0 < n) (hdata : n ≤ ((ops.map C04.BodyOp.data).flatten).length) :
    let r := C04.run (mkWriter (some n) false hb) (ops.map C04.BodyOp.toOp)
    ∃ body, C04.flushed r.1 = hb ++ body ∧ (∀ e ∈ r.2, e = none) ∧
      ∀ (segs : List Bytes) (rest : Bytes) (p : Http.PState), segs.flatten = body ++ rest →
        p.type = .length → p.length = n →
        payloadRun cfg p segs [] = (((ops.map C04.BodyOp.data).flatten).take n, some rest) := by
  intro r
  have hw : C04.LengthReady (mkWriter (some n) false hb) n :=
    ⟨rfl, rfl, rfl, rfl, Or.inr ⟨hb, rfl, hhb, rfl⟩⟩
  obtain ⟨h1, h2, _⟩ := C04.length_truthful _ n hw ops
  have hfl : C04.flushed (mkWriter (some n) false hb) = hb := by
    cases hb with
    | nil => exact absurd rfl hhb
    | cons a t => simp [C04.flushed, C04.pendingHeaders, mkWriter]
  refine ⟨((ops.map C04.BodyOp.data).flatten).take n, ?_, h1, ?_⟩
  · show C04.flushed (C04.run _ _).1 = _
    rw [h2, hfl]
  · intro segs rest p hs ht hl
    rw [length_body_segments cfg segs p n ht hl hn, hs]
    have hlen : (((ops.map C04.BodyOp.data).flatten).take n).length = n := by
      rw [List.length_take]; omega
    have hle : n ≤ (((ops.map C04.BodyOp.data).flatten).take n ++ rest).length := by
      rw [List.length_append, hlen]; omega
    rw [if_pos hle, List.take_append_of_le_length (by omega), List.drop_append_of_le_length (by omega),
      List.take_of_length_le (by omega), List.drop_eq_nil_of_le (by omega)]
    simp

/-
Full statement: the same with the receiver's `Aio.Http.chunkedLoop` in place of the reference
decoder.  Missing: `chunkedLoop` on `encodeChunks ds ++ lastChunk` delivers `ds.flatten` (the
parser model's chunked branch is validated against the real parser by the correspondence run
on recorded wire bytes and by C03's 350k segmented streams, not by a C02 theorem).
-/
/-- **Round trip of a chunked body** (`_partial`; composition of C04 `chunked_roundtrip` with the
decision layer): the writer as `_prepare_headers` leaves it in chunked mode, any program of
`write`/`send_headers` calls ended by `write_eof(d)` / `set_eof()`: the bytes after the header
block decode, by the strict RFC 9112 chunked reading, to exactly the written data with nothing
left over — and by `resp_framing_agree` the client expects a chunked body exactly then. -/
theorem response_roundtrip_chunked_partial (hb : Bytes) (ops : List C04.BodyOp) (fin : Option Bytes)
    (hhb : hb ≠ []) :
    let r := C04.run (mkWriter none true hb) (ops.map C04.BodyOp.toOp ++ [C04.finOp fin])
    ∃ body, r.1.out = hb ++ body ∧ r.1.eof = true ∧ (∀ e ∈ r.2, e = none) ∧
      C04.decodeChunked (body.length + 1) body = some ((ops.map C04.BodyOp.data).flatten ++ fin.getD [], []) := by
  intro r
  have hw : C04.ChunkedReady (mkWriter none true hb) :=
    ⟨rfl, rfl, rfl, rfl, rfl, Or.inr ⟨hb, rfl, hhb, rfl⟩⟩
  have hfl : C04.flushed (mkWriter none true hb) = hb := by
    cases hb with
    | nil => exact absurd rfl hhb
    | cons a t => simp [C04.flushed, C04.pendingHeaders, mkWriter]
  obtain ⟨body, h1, h2, h3, h4⟩ := C04.chunked_roundtrip _ hw ops fin
  exact ⟨body, by rw [← hfl]; exact h1, h2, h3, h4⟩

/-! ## non-vacuity -/

/-- the hypotheses of `resp_framing_agree` / `keepalive_agree_partial` hold for a plain
`web.Response(body=b"hello")` answering a GET on HTTP/1.1 -/
example : RespAdmissible { ver := ⟨1, 1⟩, method := ascii "GET", status := 200, isResponse := true, body := .bytes 5 } 0 :=
  ⟨(by decide), (fun n h => by cases h), (fun s _ h => by cases h), (fun h => by revert h; decide), (fun h => absurd rfl h)⟩

example : ∃ v, respVerdict { ver := ⟨1, 1⟩, method := ascii "GET", status := 200, isResponse := true, body := .bytes 5 } 0 = .ok v ∧
    v.wire = .length 5 ∧ v.view.framing = .length 5 ∧ serverKeeps v.out = true ∧ v.clientClose = false :=
  ⟨_, rfl, by decide +kernel⟩

/-- and those of `req_framing_agree_partial` for `session.post(url, data=b"abc")` -/
example : ReqAdmissible { ver := ⟨1, 1⟩, method := ascii "POST", hasData := true, dataTruthy := true, size := some 3 } 3 :=
  ⟨(by decide), (fun _ => rfl), (fun h => by cases h), (fun s h => by cases h; rfl), rfl, rfl⟩

example : ∃ v, reqVerdict { ver := ⟨1, 1⟩, method := ascii "POST", hasData := true, dataTruthy := true, size := some 3 } 3 = .ok v ∧
    v.wire = .length 3 ∧ v.view.framing = .length 3 :=
  ⟨_, rfl, by decide +kernel⟩

/-! ## an upload whose source failed is never terminated -/

/-- **A failed upload stays visibly incomplete.**  Whenever the body source did not finish
(it raised, or the writer task was cancelled) `_write_bytes` does not call `write_eof()` — so a
chunked body gets no terminating `0\r\n\r\n` and, by C04 `no_premature_terminator`, the wire
holds only complete data chunks: the server cannot take the prefix for the whole body — and the
request fails for the caller or the connection is closed.  Only a completely written body is
terminated. -/
theorem failed_source_no_terminator (o : SrcOutcome) :
    ((writeBytesEnd o).writesEof = true ↔ o = .ok) ∧
    (o ≠ .ok → (writeBytesEnd o).failsRequest = true ∨ (writeBytesEnd o).closesConn = true) := by
  cases o <;> simp [writeBytesEnd]

/-! ## the end of the connection inside a body -/

/-- **A body cut off by the end of the connection is never reported complete.**  When
`connection_lost` / `feed_eof` reaches the parser while a payload is in progress: a chunked
body — *wherever* it stands, also exactly on a chunk boundary or inside the trailer section,
whatever was buffered — is always an error (`TransferEncodingError`; only the terminating
last-chunk + blank line, which removes the payload parser, ends a chunked body); a
`Content-Length` body is an error as long as bytes are outstanding; only a close-delimited
body ends (normally) there. -/
theorem eof_inside_body (cfg : Http.Cfg) (urlOk : Bool → Bytes → Bool) (st : Http.St) (p : Http.PState)
    (hf : st.failed = false) (hp : st.payload = some p) :
    (p.type = .chunked → Http.feedEof cfg urlOk st = ([], some .transferEncoding)) ∧
    (p.type = .length → p.length ≠ 0 → Http.feedEof cfg urlOk st = ([], some .contentLength)) ∧
    (p.type = .untilEof → Http.feedEof cfg urlOk st = ([.eof], none)) := by
  unfold Http.feedEof
  simp only [hf, hp, Bool.false_eq_true, if_false]
  refine ⟨?_, ?_, ?_⟩
  · intro h; simp [h]
  · intro h hn; simp [h, hn]
  · intro h; simp [h]

end Aio.C02
