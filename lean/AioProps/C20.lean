import AioProps.C20Lemmas
/-!
# C20 — property theorems, part 1: cleanup runs exactly for what started

Model: `AioModel/C20.lean` (= `web_app.CleanupContext`, `Application` signals with
sub-applications, `web_runner.BaseRunner/AppRunner`, `web._run_app`).  `lifeLog tbl entry` is
the event log the instrumented user callbacks write during one whole life of the
application table `tbl` through `entry`; `enteredOf` / `exitsOf` read off it the contexts
whose start-up code completed / whose cleanup code ran, in order.

The property as stated — *cleanup code runs exactly once iff start-up completed, in reverse
order of start-up, for any failing set, through AppRunner or run_app* — is

    exitsOf log = (enteredOf log).reverse

It is proved in full for one application through `AppRunner` (`cleanup_iff_started_runner_single`),
its "only if / at most once" half is proved for every table, entry and failing set
(`cleanup_only_started_at_most_once`); the "if" half is false on the unchanged code in the
five situations pinned down by the counterexample theorems at the end, so the general
statements carry the excluding hypotheses and are named `_partial`.  The shutdown-drain
theorems are in `AioProps/C20Drain.lean`.
-/
namespace Aio.C20

/-- **One `CleanupContext`, all n, all failing sets.**  Start-up enters the contexts in
order and stops at the first one whose start-up code raises; exactly the contexts before it
are recorded.  Cleanup then runs the cleanup code of exactly those, each once, in reverse
order — whichever of them raise (`Exception` or `CancelledError`) — and reports an error iff
one of them raised. -/
theorem context_startup_cleanup (a : Nat) (cs : List Ctx) :
    enteredOf (enterAll a 0 cs).ev = (List.range (okPrefix cs)).map (fun i => (a, i)) ∧
    exitsOf (groupCleanup a cs (enterAll a 0 cs).entered).1 = (enteredOf (enterAll a 0 cs).ev).reverse ∧
    ((enterAll a 0 cs).err = none ↔ okPrefix cs = cs.length) ∧
    ((groupCleanup a cs (enterAll a 0 cs).entered).2 = none ↔ ∀ i < okPrefix cs, exitFail cs i = .ok) := by
  have h1 := enterAll_log a cs 0
  have h2 := enterAll_entered a cs 0
  have h3 := groupCleanup_log a cs (enterAll a 0 cs).entered
  refine ⟨?_, ?_, enterAll_err a cs 0, ?_⟩
  · rw [h1.1, h2, List.range_eq_range']
  · rw [h3.1, h1.1, List.map_reverse]
  · simp only [groupCleanup, raiseCollected_none, exitAll_errs, h2, List.mem_reverse,
      List.mem_range'_1]
    constructor
    · intro h i hi; exact h i ⟨by omega, by omega⟩
    · intro h i hi; exact h i (by omega)

/-- **Only what started, at most once — every table, both entries, every failing set.**
In the log of a whole life (application tree with sub-applications, any callbacks raising
in set-up or tear-down, through `AppRunner` or `_run_app`) no context's cleanup code runs
twice, and it runs only for a context whose start-up code had completed.
(`wellFormed`: no application is registered as a sub-application twice.) -/
theorem cleanup_only_started_at_most_once (tbl : List AppDef) (entry : Entry)
    (hwf : wellFormed tbl = true) :
    (exitsOf (lifeLog tbl entry)).Nodup ∧
      ∀ p ∈ exitsOf (lifeLog tbl entry), p ∈ enteredOf (lifeLog tbl entry) := by
  simp only [wellFormed, Bool.and_eq_true, decide_eq_true_eq] at hwf
  have hs := setup_spec tbl hwf.1
  have hc := cleanup_spec tbl (Runner.step tbl {} .setup).r hwf.2 (fun a => (hs.2 a).1)
  have hrunner : (exitsOf (lifeLog tbl .runner)).Nodup ∧
      ∀ p ∈ exitsOf (lifeLog tbl .runner), p ∈ enteredOf (lifeLog tbl .runner) := by
    rw [lifeLog_runner]
    simp only [exitsOf_append, enteredOf_append, hs.1, hc.1, List.nil_append, List.append_nil]
    exact ⟨hc.2.1, fun p hp => (hs.2 p.1).2 p.2 (hc.2.2 p hp)⟩
  cases entry with
  | runner => exact hrunner
  | runApp =>
    rw [lifeLog_runApp]
    split
    · exact hrunner
    · rw [hs.1]; simp

/-- **The property in full for one application through `AppRunner`.**  For an application
without sub-applications, with any number of cleanup contexts, any of their start-up or
cleanup codes raising, any `on_startup` / `on_cleanup` handlers raising (and `on_shutdown`
handlers that do not raise — see `shutdown_handler_error_skips_all_cleanup`), driven by
`runner.setup()` then `runner.cleanup()`: the cleanup code runs exactly for the contexts whose
start-up completed, each once, in reverse order of start-up. -/
theorem cleanup_iff_started_runner_single (d : AppDef)
    (hsub : ∀ s, ∀ sl ∈ slotsOf s d, ∃ id f, sl = Slot.h id f)
    (hsd : ∀ id f, Slot.h id f ∈ d.shutdown → f = .ok) :
    exitsOf (lifeLog [d] .runner) = (enteredOf (lifeLog [d] .runner)).reverse := by
  obtain ⟨hsu, hsu1, _, esu⟩ := rootChain_single d .startup (hsub .startup)
  obtain ⟨hsh, hsh1, hsh2, esh⟩ := rootChain_single d .shutdown (hsub .shutdown)
  obtain ⟨hcl, hcl1, _, ecl⟩ := rootChain_single d .cleanup (hsub .cleanup)
  simp only [reduceCtorEq, if_false, List.cons_append, List.nil_append] at esu ecl
  simp only [if_true, List.nil_append] at esh
  have hshok : ∀ st ∈ hsh, ∃ id, st = Step.h id .ok := by
    intro st hst
    obtain ⟨id, f, rfl⟩ := hsh1 st hst
    exact ⟨id, by rw [hsd id f (hsh2 id f hst)]⟩
  have S := send_startup_grp_handlers [d] 0 hsu Exits.empty hsu1
  rw [lifeLog_runner]
  -- the state after setup, in both outcomes
  have key : ∀ (r : Runner), r.X = (send [d] .startup (rootChain [d] .startup) Exits.empty).X →
      (r.frozen = true → r.server = true) →
      exitsOf (Runner.step [d] r .cleanup).ev =
        ((enterAll 0 0 (ctxsOf [d] 0)).entered.map (fun j => (0, j))).reverse ∧
      enteredOf (Runner.step [d] r .cleanup).ev = [] := by
    intro r hX hfs
    have hX0 : r.X 0 = (enterAll 0 0 (ctxsOf [d] 0)).entered := by
      rw [hX, esu, S.1]; simp [Exits.set, Exits.empty]
    have C := send_cleanup_grp_handlers [d] 0 hcl r.X hcl1
    have G := groupCleanup_log 0 (ctxsOf [d] 0) (r.X 0)
    have SD := send_shutdown_log [d] hsh r.X
    have SDok := send_handlers_ok [d] .shutdown hsh r.X hshok
    rw [hX0] at G C
    simp only [Runner.step, esh, ecl]
    cases hserver : r.server with
    | false =>
      have hfro : r.frozen = false := by
        cases hf : r.frozen with
        | false => rfl
        | true => rw [hfs hf] at hserver; cases hserver
      simp only [hfro, Bool.false_eq_true, if_false]
      split
      · simp [hX0, G.1, G.2, List.map_reverse]
      · simp [hX0, G.1, G.2, List.map_reverse]
    | true =>
      simp only [if_true, SDok]
      cases hfro : r.frozen with
      | false =>
        simp only [Bool.false_eq_true, if_false]
        split
        · simp [hX0, G.1, G.2, SD.1, SD.2.1, List.map_reverse]
        · simp [hX0, G.1, G.2, SD.1, SD.2.1, List.map_reverse]
      | true =>
        simp only [if_true]
        split
        · simp [hX0, C.1, C.2, SD.1, SD.2.1, List.map_reverse]
        · simp [hX0, C.1, C.2, SD.1, SD.2.1, List.map_reverse]
  have hsetup_ev : enteredOf (Runner.step [d] {} .setup).ev =
        (enterAll 0 0 (ctxsOf [d] 0)).entered.map (fun j => (0, j)) ∧
      exitsOf (Runner.step [d] {} .setup).ev = [] ∧
      (Runner.step [d] {} .setup).r.X = (send [d] .startup (rootChain [d] .startup) Exits.empty).X ∧
      ((Runner.step [d] {} .setup).r.frozen = true → (Runner.step [d] {} .setup).r.server = true) := by
    simp only [Runner.step]
    split
    · refine ⟨?_, ?_, rfl, by simp⟩
      · rw [esu]; exact S.2.1
      · rw [esu]; exact S.2.2
    · refine ⟨?_, ?_, rfl, by simp⟩
      · rw [esu]; exact S.2.1
      · rw [esu]; exact S.2.2
  have K := key _ hsetup_ev.2.2.1 hsetup_ev.2.2.2
  simp only [exitsOf_append, enteredOf_append, hsetup_ev.1, hsetup_ev.2.1, K.1, K.2,
    List.nil_append, List.append_nil]

/-- **Teardowns never overlap — every table, both entries, every failing set.**  Reading the
whole event log, the cleanup code of a context begins only when no other cleanup code is
running, and nothing else is logged until it is over (returned or raised): "reverse order
of start-up" holds for whole teardowns (begin *and* end), not only for their first
statement.  Together with the order theorems this is the strict nesting
`… begin(k+1) end(k+1) begin(k) end(k) …`. -/
theorem teardowns_never_overlap (tbl : List AppDef) (entry : Entry) :
    nestedFrom none (lifeLog tbl entry) = true := by
  have hrunner : nestedFrom none (lifeLog tbl .runner) = true := by
    rw [lifeLog_runner]
    exact nested_append _ _ (step_nested tbl {} .setup) (step_nested tbl _ .cleanup)
  cases entry with
  | runner => exact hrunner
  | runApp =>
    rw [lifeLog_runApp]
    split
    · exact hrunner
    · exact step_nested tbl {} .setup

/-- one `CleanupContext`: the teardown events are exactly `begin i, end i` for the recorded
contexts in reverse order, one after the other -/
theorem context_teardowns_sequential (a : Nat) (cs : List Ctx) (x : List Nat) :
    (groupCleanup a cs x).1 = x.reverse.flatMap (fun i => [Ev.exit a i, Ev.exitEnd a i]) := by
  simp only [groupCleanup]
  induction x.reverse with
  | nil => rfl
  | cons i l ih => simp [exitAll, ih]

/-- **A start-up cut short by the cancellation of `setup()` is not recorded and never
completes.**  If the task awaiting `runner.setup()` is cancelled while context `k` is
starting (all earlier ones started), exactly the contexts before `k` are recorded for
cleanup, `k`'s start-up code does not complete (no `entered` event — nothing is shielded),
and `CancelledError` propagates. -/
theorem cancelled_startup_is_not_recorded (a i : Nat) (pre post : List Ctx) (x : Fail)
    (hpre : ∀ c ∈ pre, c.enter = .ok) :
    (enterAll a i (pre ++ ⟨.xcancel, x⟩ :: post)).entered = List.range' i pre.length ∧
    (enterAll a i (pre ++ ⟨.xcancel, x⟩ :: post)).err = some .cancelled ∧
    enteredOf (enterAll a i (pre ++ ⟨.xcancel, x⟩ :: post)).ev = (List.range' i pre.length).map (fun j => (a, j)) := by
  induction pre generalizing i with
  | nil => simp [enterAll, failErr]
  | cons c pre ih =>
    have hc : c.enter = .ok := hpre c (by simp)
    have := ih (i + 1) (fun c' hc' => hpre c' (by simp [hc']))
    simp [enterAll, hc, this, List.range'_succ]

/-- Whenever start-up succeeds, `_run_app` and `AppRunner` produce the same log (any table). -/
theorem run_app_eq_runner_when_startup_succeeds (tbl : List AppDef)
    (h : (Runner.step tbl {} .setup).err = none) : lifeLog tbl .runApp = lifeLog tbl .runner := by
  rw [lifeLog_runApp, if_pos h]

/- Full statement (false on the unchanged code, see `f16_run_app_setup_outside_try`):
   theorem cleanup_iff_started_run_app_single (d) (hsub) (hsd) :
       exitsOf (lifeLog [d] .runApp) = (enteredOf (lifeLog [d] .runApp)).reverse
   Missing: the case in which `runner.setup()` raises. -/
/-- **`run_app`, one application — partial.**  Same conclusion as
`cleanup_iff_started_runner_single` through `web._run_app`, under the extra hypothesis that
start-up succeeds (`runner.setup()` does not raise). -/
theorem cleanup_iff_started_run_app_single_partial (d : AppDef)
    (hsub : ∀ s, ∀ sl ∈ slotsOf s d, ∃ id f, sl = Slot.h id f)
    (hsd : ∀ id f, Slot.h id f ∈ d.shutdown → f = .ok)
    (hstart : (Runner.step [d] {} .setup).err = none) :
    exitsOf (lifeLog [d] .runApp) = (enteredOf (lifeLog [d] .runApp)).reverse := by
  rw [run_app_eq_runner_when_startup_succeeds [d] hstart]
  exact cleanup_iff_started_runner_single d hsub hsd

/- Full statement (false on the unchanged code — `subapp_contexts_skipped_after_failed_startup`,
   `cleanup_error_skips_subapp_contexts`, `shutdown_handler_error_skips_all_cleanup`,
   `parent_exits_before_subapp`, `f16_run_app_setup_outside_try`):
   theorem cleanup_iff_started_tree (tbl) (entry) (hwf : wellFormed tbl = true) :
       exitsOf (lifeLog tbl entry) = (enteredOf (lifeLog tbl entry)).reverse
   Missing: lives in which start-up, an `on_shutdown` handler or a cleanup step raises, and
   the order *between* different applications. -/
/-- **Application trees — partial.**  For any tree of applications (sub-applications nested
to any depth, any number of contexts and handlers), through either entry: if start-up, the
`on_shutdown` signal and the `on_cleanup` signal all complete without raising, then every
context whose start-up completed has its cleanup code run (exactly once, by
`cleanup_only_started_at_most_once`), and within each application the cleanup order is the
reverse of the start-up order.  (`hsame`: every application that receives `on_startup` also
receives `on_cleanup` — what `add_subapp` does.) -/
theorem cleanup_iff_started_tree_partial (tbl : List AppDef) (entry : Entry)
    (hwf : wellFormed tbl = true)
    (hsame : ∀ a ∈ groupsOf (rootChain tbl .startup), a ∈ groupsOf (rootChain tbl .cleanup))
    (hstart : (Runner.step tbl {} .setup).err = none)
    (hclean : (Runner.step tbl (Runner.step tbl {} .setup).r .cleanup).err = none) :
    (∀ p ∈ enteredOf (lifeLog tbl entry), p ∈ exitsOf (lifeLog tbl entry)) ∧
      ∀ a, (exitsOf (lifeLog tbl entry)).filter (fun p => p.1 = a) =
        ((enteredOf (lifeLog tbl entry)).filter (fun p => p.1 = a)).reverse := by
  have hentry : lifeLog tbl entry = lifeLog tbl .runner := by
    cases entry with
    | runner => rfl
    | runApp => exact run_app_eq_runner_when_startup_succeeds tbl hstart
  rw [hentry, lifeLog_runner]
  simp only [wellFormed, Bool.and_eq_true, decide_eq_true_eq] at hwf
  -- what setup did
  have hsu : (send tbl .startup (rootChain tbl .startup) Exits.empty).err = none ∧
      (Runner.step tbl {} .setup).ev = (send tbl .startup (rootChain tbl .startup) Exits.empty).ev ∧
      (Runner.step tbl {} .setup).r =
        ⟨(send tbl .startup (rootChain tbl .startup) Exits.empty).X, true, true⟩ := by
    revert hstart
    simp only [Runner.step]
    cases (send tbl .startup (rootChain tbl .startup) Exits.empty).err <;> simp
  obtain ⟨hsuok, hsuev, hsur⟩ := hsu
  have FULL := send_startup_full tbl (rootChain tbl .startup) Exits.empty hwf.1 (fun _ _ => rfl) hsuok
  -- what cleanup did
  rw [hsur] at hclean ⊢
  have hcl : (send tbl .cleanup (rootChain tbl .cleanup)
        (send tbl .startup (rootChain tbl .startup) Exits.empty).X).err = none ∧
      exitsOf (Runner.step tbl ⟨(send tbl .startup (rootChain tbl .startup) Exits.empty).X, true, true⟩ .cleanup).ev =
        exitsOf (send tbl .cleanup (rootChain tbl .cleanup)
          (send tbl .startup (rootChain tbl .startup) Exits.empty).X).ev ∧
      enteredOf (Runner.step tbl ⟨(send tbl .startup (rootChain tbl .startup) Exits.empty).X, true, true⟩ .cleanup).ev = [] := by
    have SD := send_shutdown_log tbl (rootChain tbl .shutdown) (send tbl .startup (rootChain tbl .startup) Exits.empty).X
    have CB := send_cleanup_basic tbl (rootChain tbl .cleanup) (send tbl .startup (rootChain tbl .startup) Exits.empty).X
    revert hclean
    simp only [Runner.step, if_true]
    cases (send tbl .shutdown (rootChain tbl .shutdown) (send tbl .startup (rootChain tbl .startup) Exits.empty).X).err with
    | some e => simp
    | none =>
      simp only
      cases (send tbl .cleanup (rootChain tbl .cleanup) (send tbl .startup (rootChain tbl .startup) Exits.empty).X).err with
      | some e => simp
      | none => simp [SD.1, SD.2.1, CB.1]
  obtain ⟨hclok, hclex, hclen⟩ := hcl
  have EX := send_cleanup_exits tbl (rootChain tbl .cleanup) (send tbl .startup (rootChain tbl .startup) Exits.empty).X
  rw [send_cleanup_reached_all _ _ _ hclok] at EX
  simp only [exitsOf_append, enteredOf_append, hsuev, send_startup_exits, hclex, hclen, EX, FULL.1,
    List.nil_append, List.append_nil]
  constructor
  · intro p hp
    simp only [List.mem_flatMap, List.mem_map] at hp ⊢
    obtain ⟨g, hg, j, hj, rfl⟩ := hp
    exact ⟨g, hsame g hg, j, by simpa using hj, rfl⟩
  · intro a
    rw [filter_flatMap_pairs _ (fun g => ((send tbl .startup (rootChain tbl .startup) Exits.empty).X g).reverse) a hwf.2,
      filter_flatMap_pairs _ (fun g => (send tbl .startup (rootChain tbl .startup) Exits.empty).X g) a hwf.1]
    by_cases hsu' : a ∈ groupsOf (rootChain tbl .startup)
    · simp [hsu', hsame a hsu', List.map_reverse]
    · have : (send tbl .startup (rootChain tbl .startup) Exits.empty).X a = [] := by
        rw [FULL.2 a hsu']; rfl
      simp [hsu', this]

/-- **No `on_cleanup` failure can hide the root application's contexts.**  For any tree,
through either entry: if start-up and the `on_shutdown` signal complete without raising,
then every context of the *root* application whose start-up completed has its cleanup code
run — whichever `on_cleanup` handlers (of the root or of any sub-application) and whichever
cleanup codes raise.  (The root's context callback is the first receiver of `on_cleanup`;
the same holds for no other application, see `cleanup_error_skips_subapp_contexts`.) -/
theorem root_contexts_always_cleaned (d : AppDef) (t : List AppDef) (entry : Entry)
    (hwf : wellFormed (d :: t) = true)
    (hstart : (Runner.step (d :: t) {} .setup).err = none)
    (hsd : (send (d :: t) .shutdown (rootChain (d :: t) .shutdown)
      (Runner.step (d :: t) {} .setup).r.X).err = none) :
    ∀ i, (0, i) ∈ enteredOf (lifeLog (d :: t) entry) → (0, i) ∈ exitsOf (lifeLog (d :: t) entry) := by
  have hentry : lifeLog (d :: t) entry = lifeLog (d :: t) .runner := by
    cases entry with
    | runner => rfl
    | runApp => exact run_app_eq_runner_when_startup_succeeds _ hstart
  rw [hentry, lifeLog_runner]
  simp only [wellFormed, Bool.and_eq_true, decide_eq_true_eq] at hwf
  have hsu : (send (d :: t) .startup (rootChain (d :: t) .startup) Exits.empty).err = none ∧
      (Runner.step (d :: t) {} .setup).ev = (send (d :: t) .startup (rootChain (d :: t) .startup) Exits.empty).ev ∧
      (Runner.step (d :: t) {} .setup).r =
        ⟨(send (d :: t) .startup (rootChain (d :: t) .startup) Exits.empty).X, true, true⟩ := by
    revert hstart
    simp only [Runner.step]
    cases (send (d :: t) .startup (rootChain (d :: t) .startup) Exits.empty).err <;> simp
  obtain ⟨hsuok, hsuev, hsur⟩ := hsu
  have FULL := send_startup_full (d :: t) (rootChain (d :: t) .startup) Exits.empty hwf.1 (fun _ _ => rfl) hsuok
  rw [hsur] at hsd ⊢
  obtain ⟨rest, hrest⟩ : ∃ rest, rootChain (d :: t) .cleanup = Step.grp 0 :: rest := ⟨_, rfl⟩
  have EX := send_cleanup_exits (d :: t) (rootChain (d :: t) .cleanup)
    (send (d :: t) .startup (rootChain (d :: t) .startup) Exits.empty).X
  have CB := send_cleanup_basic (d :: t) (rootChain (d :: t) .cleanup)
    (send (d :: t) .startup (rootChain (d :: t) .startup) Exits.empty).X
  have SD := send_shutdown_log (d :: t) (rootChain (d :: t) .shutdown)
    (send (d :: t) .startup (rootChain (d :: t) .startup) Exits.empty).X
  have hcl : exitsOf (Runner.step (d :: t)
        ⟨(send (d :: t) .startup (rootChain (d :: t) .startup) Exits.empty).X, true, true⟩ .cleanup).ev =
      exitsOf (send (d :: t) .cleanup (rootChain (d :: t) .cleanup)
        (send (d :: t) .startup (rootChain (d :: t) .startup) Exits.empty).X).ev := by
    simp only [Runner.step, if_true, hsd]
    split <;> simp [SD.2.1]
  intro i hi
  simp only [enteredOf_append, exitsOf_append, hsuev, send_startup_exits, hcl, List.nil_append] at hi ⊢
  have hiX : i ∈ (send (d :: t) .startup (rootChain (d :: t) .startup) Exits.empty).X 0 := by
    rcases List.mem_append.mp hi with h | h
    · rw [FULL.1] at h
      simp only [List.mem_flatMap, List.mem_map, Prod.mk.injEq] at h
      obtain ⟨g, _, j, hj, rfl, rfl⟩ := h
      exact hj
    · have hnone : enteredOf (Runner.step (d :: t)
          ⟨(send (d :: t) .startup (rootChain (d :: t) .startup) Exits.empty).X, true, true⟩ .cleanup).ev = [] := by
        simp only [Runner.step, if_true, hsd]
        split <;> simp [SD.1, CB.1]
      rw [hnone] at h; cases h
  rw [EX, hrest]
  simp only [reached, List.flatMap_cons, List.mem_append, List.mem_map, List.mem_reverse]
  exact Or.inl ⟨i, hiX, rfl⟩

/-- **F16 in general.**  Through `_run_app`, whenever start-up raises — whatever the table,
wherever the failure — *no* cleanup code runs at all (`await runner.setup()` precedes the
`try … finally: await runner.cleanup()`). -/
theorem run_app_failed_startup_never_cleans (tbl : List AppDef)
    (h : (Runner.step tbl {} .setup).err ≠ none) : exitsOf (lifeLog tbl .runApp) = [] := by
  rw [lifeLog_runApp, if_neg h]
  exact send_startup_exits_setup tbl {}

/-! ## Counterexamples on the model of the unchanged code (kernel-checked) -/

def ctxOk : Ctx := ⟨.ok, .ok⟩
/-- three contexts, the second fails to start (F16) -/
def f16Table : List AppDef := [⟨[ctxOk, ⟨.exc, .ok⟩, ctxOk], [], [], []⟩]
/-- root with one context and one sub-application with one context -/
def rootSub (rootCtx : Ctx) (su sd cl : List Slot) : List AppDef :=
  [⟨[rootCtx], su, sd, cl⟩, ⟨[ctxOk], [], [], []⟩]

/-- **F16.**  Three contexts, the second raises in start-up: through `AppRunner` the first
is cleaned up; through `_run_app` it completed start-up and is never cleaned up.
Minimal fix: move `await runner.setup()` inside the `try`. -/
theorem f16_run_app_setup_outside_try :
    wellFormed f16Table = true ∧
    enteredOf (lifeLog f16Table .runner) = [(0, 0)] ∧ exitsOf (lifeLog f16Table .runner) = [(0, 0)] ∧
    enteredOf (lifeLog f16Table .runApp) = [(0, 0)] ∧ exitsOf (lifeLog f16Table .runApp) = [] := by
  decide +kernel

/-- **Sub-application contexts are skipped after a failed start-up (AppRunner).**  The
sub-application's context starts, then a later `on_startup` handler of the root raises: the
application is never frozen, `Application.cleanup` takes its "not frozen" branch and exits
only the root's contexts. -/
theorem subapp_contexts_skipped_after_failed_startup :
    let tbl := rootSub ctxOk [.sub 1, .h 1 .exc] [.sub 1] [.sub 1]
    wellFormed tbl = true ∧
    enteredOf (lifeLog tbl .runner) = [(0, 0), (1, 0)] ∧ exitsOf (lifeLog tbl .runner) = [(0, 0)] := by
  decide +kernel

/-- **A failing cleanup step hides the remaining applications.**  The root's context raises
in its cleanup code: `Signal.send` stops, the sub-application's `on_cleanup` (hence its
context's cleanup code) never runs. -/
theorem cleanup_error_skips_subapp_contexts :
    let tbl := rootSub ⟨.ok, .exc⟩ [.sub 1] [.sub 1] [.sub 1]
    wellFormed tbl = true ∧
    enteredOf (lifeLog tbl .runner) = [(0, 0), (1, 0)] ∧ exitsOf (lifeLog tbl .runner) = [(0, 0)] := by
  decide +kernel

/-- **An `on_shutdown` handler that raises skips all cleanup** (both entries): the
exception leaves `BaseRunner.cleanup` before `_cleanup_server()`. -/
theorem shutdown_handler_error_skips_all_cleanup :
    let tbl : List AppDef := [⟨[ctxOk], [], [.h 1 .exc], []⟩]
    wellFormed tbl = true ∧
    enteredOf (lifeLog tbl .runner) = [(0, 0)] ∧ exitsOf (lifeLog tbl .runner) = [] ∧
    enteredOf (lifeLog tbl .runApp) = [(0, 0)] ∧ exitsOf (lifeLog tbl .runApp) = [] := by
  decide +kernel

/-- **Across applications the order is not reversed** (no failure at all): the root's
context starts first and is also cleaned first — the context callback is the first receiver
of both `on_startup` and `on_cleanup`.  Within one application the order is reversed
(`cleanup_iff_started_tree_partial`). -/
theorem parent_exits_before_subapp :
    let tbl := rootSub ctxOk [.sub 1] [.sub 1] [.sub 1]
    wellFormed tbl = true ∧
    enteredOf (lifeLog tbl .runner) = [(0, 0), (1, 0)] ∧ exitsOf (lifeLog tbl .runner) = [(0, 0), (1, 0)] := by
  decide +kernel

/-! ## the hypotheses are satisfiable (non-vacuity) -/

/-- a tree with a sub-application is well formed and satisfies every hypothesis of
`cleanup_iff_started_tree_partial` -/
example :
    let tbl := rootSub ctxOk [.h 1 .ok, .sub 1] [.sub 1, .h 2 .ok] [.h 3 .ok, .sub 1]
    wellFormed tbl = true ∧
    (∀ a ∈ groupsOf (rootChain tbl .startup), a ∈ groupsOf (rootChain tbl .cleanup)) ∧
    (Runner.step tbl {} .setup).err = none ∧
    (Runner.step tbl (Runner.step tbl {} .setup).r .cleanup).err = none := by
  decide +kernel

/-- a tree whose root `on_cleanup` handler raises satisfies the hypotheses of
`root_contexts_always_cleaned` -/
example :
    let tbl := rootSub ctxOk [.sub 1] [.sub 1] [.h 1 .exc, .sub 1]
    wellFormed tbl = true ∧ (Runner.step tbl {} .setup).err = none ∧
    (send tbl .shutdown (rootChain tbl .shutdown) (Runner.step tbl {} .setup).r.X).err = none := by
  decide +kernel

/-- an application with failing contexts and handlers satisfies the hypotheses of
`cleanup_iff_started_runner_single` -/
example :
    let d : AppDef := ⟨[ctxOk, ⟨.ok, .exc⟩, ⟨.exc, .ok⟩], [.h 1 .exc], [.h 2 .ok], [.h 3 .cancel]⟩
    (∀ s, ∀ sl ∈ slotsOf s d, ∃ id f, sl = Slot.h id f) ∧ (∀ id f, Slot.h id f ∈ d.shutdown → f = .ok) := by
  refine ⟨?_, ?_⟩
  · intro s sl hsl
    cases s <;> simp [slotsOf] at hsl <;> subst hsl <;> exact ⟨_, _, rfl⟩
  · intro id f h
    simp at h
    exact h.2

/-- start-up can fail (hypothesis of `run_app_failed_startup_never_cleans`) and succeed
(hypothesis of `cleanup_iff_started_run_app_single_partial`) -/
example : (Runner.step f16Table {} .setup).err ≠ none ∧
    (Runner.step [⟨[ctxOk], [], [], []⟩] {} .setup).err = none := by
  decide +kernel

end Aio.C20
