import AioModel.C20
namespace Aio.C20
end Aio.C20
