import AioProps.HttpLemmas
/-!
# C03 — segmentation independence: the laws the resumable parser rests on

Model: `AioModel/Http.lean`.  The parser keeps the unconsumed tail between reads and re-scans
`tail ++ data`.  Its outcome is independent of where the reads were cut provided
(1) a separator found in a prefix is found at the same place in every extension,
(2) the *early* checks made on a buffered partial line only reject what the check on the
    completed line would reject as well (this is exactly where the unchanged code failed:
    findings F1–F3), and
(3) body bytes are delivered compositionally.
These are proved here for all byte strings and limits; that the code computes the same
function as the model at *every* cut is what the correspondence run validates.
-/
namespace Aio.Http
open Aio

/-! ### (1) separators are stable under extension -/

theorem findCRLF_append_stable (a b : Bytes) (p : Nat) (h : findCRLF a = some p) :
    findCRLF (a ++ b) = some p := by
  induction a generalizing p with
  | nil => simp [findCRLF] at h
  | cons x t ih =>
    cases t with
    | nil => simp [findCRLF] at h
    | cons y t' =>
      simp only [findCRLF] at h
      simp only [List.cons_append, findCRLF]
      split
      · next hc => simp [hc] at h; simp [h]
      · next hc =>
        simp [hc] at h
        obtain ⟨q, hq, rfl⟩ := h
        have := ih q hq
        simp only [List.cons_append] at this
        simp [this]

theorem findByte_append_stable (c : UInt8) (a b : Bytes) (p : Nat) (h : findByte c a = some p) :
    findByte c (a ++ b) = some p := by
  induction a generalizing p with
  | nil => simp [findByte] at h
  | cons x t ih =>
    simp only [findByte] at h
    simp only [List.cons_append, findByte]
    split
    · next hc => simp [hc] at h; simp [h]
    · next hc =>
      simp [hc] at h
      obtain ⟨q, hq, rfl⟩ := h
      simp [ih q hq]

/-- both line terminators (CRLF strict, LF lax): a terminator found stays where it is -/
theorem findSep_append_stable (lax : Bool) (a b : Bytes) (p : Nat) (h : findSep lax a = some p) :
    findSep lax (a ++ b) = some p := by
  unfold findSep at *
  cases lax
  · simpa using findCRLF_append_stable a b p (by simpa using h)
  · simpa using findByte_append_stable 10 a b p (by simpa using h)

/-- if no CRLF was found in `a`, one found in `a ++ b` starts at the last byte of `a` (which is
then a CR) or later -/
theorem findCRLF_none_append (a b : Bytes) (p : Nat) (hn : findCRLF a = none)
    (h : findCRLF (a ++ b) = some p) :
    (p + 1 = a.length ∧ a.getLast? = some 13) ∨ a.length ≤ p := by
  induction a generalizing p with
  | nil => right; simp
  | cons x t ih =>
    cases t with
    | nil =>
      -- a = [x]
      cases b with
      | nil => simp [findCRLF] at h
      | cons y b' =>
        simp only [List.cons_append, List.nil_append, findCRLF] at h
        split at h
        · next hc => simp at h; subst h; left; simp [hc.1]
        · simp at h; obtain ⟨q, _, rfl⟩ := h; right; simp
    | cons y t' =>
      simp only [findCRLF] at hn
      split at hn
      · cases hn
      · next hc =>
        simp at hn
        simp only [List.cons_append, findCRLF, hc, if_false] at h
        simp at h
        obtain ⟨q, hq, rfl⟩ := h
        have := ih q hn (by simpa using hq)
        rcases this with ⟨h1, h2⟩ | h2
        · left; constructor
          · simp at h1 ⊢; omega
          · simpa using h2
        · right; simp at h2 ⊢; omega

theorem findByte_none_append (c : UInt8) (a b : Bytes) (p : Nat) (hn : findByte c a = none)
    (h : findByte c (a ++ b) = some p) : a.length ≤ p := by
  induction a generalizing p with
  | nil => simp
  | cons x t ih =>
    simp only [findByte] at hn
    split at hn
    · cases hn
    · next hc =>
      simp at hn
      simp only [List.cons_append, findByte, hc, if_false] at h
      simp at h
      obtain ⟨q, hq, rfl⟩ := h
      have := ih q hn hq
      simp; omega

/-! ### (2) early rejection of a partial line implies rejection of the completed line -/

/-- **Strict mode (requests; findings F1-F3).** If the buffered partial line `a` (no CRLF yet)
fails the early length check against the limit `maxLen` in force for that line, then in every
continuation `a ++ b` the completed line — everything before the first CRLF — is longer than
`maxLen` too, so the late check rejects it as well.  (A trailing CR of `a` is not counted:
it may be the first half of the terminator.) -/
theorem tail_check_sound_strict (cfg : Cfg) (hs : cfg.lax = false) (a b : Bytes) (maxLen p : Nat)
    (hn : findCRLF a = none) (hearly : tailLen cfg a > maxLen)
    (hfound : findCRLF (a ++ b) = some p) :
    ((a ++ b).take p).length > maxLen := by
  have hp : p ≤ (a ++ b).length := by
    -- a found index lies inside the buffer
    have : ∀ (l : Bytes) (q : Nat), findCRLF l = some q → q ≤ l.length := by
      intro l
      induction l with
      | nil => intro q h; simp [findCRLF] at h
      | cons x t ih =>
        intro q h
        cases t with
        | nil => simp [findCRLF] at h
        | cons y t' =>
          simp only [findCRLF] at h
          split at h
          · simp at h; subst h; simp
          · simp at h; obtain ⟨r, hr, rfl⟩ := h; have := ih r hr; simp at this ⊢; omega
    exact this _ _ hfound
  simp only [List.length_take, Nat.min_eq_left hp]
  unfold tailLen at hearly
  rcases findCRLF_none_append a b p hn hfound with ⟨h1, h2⟩ | h2
  · simp [h2] at hearly; omega
  · split at hearly <;> omega

/-- **Lax mode (responses).** Same law for the LF-terminated reading, where a completed line is
measured as the raw line minus at most one trailing CR. -/
theorem tail_check_sound_lax (cfg : Cfg) (hl : cfg.lax = true) (a b : Bytes) (maxLen p : Nat)
    (hn : findByte 10 a = none) (hearly : tailLen cfg a > maxLen)
    (hfound : findByte 10 (a ++ b) = some p) :
    lineLen cfg ((a ++ b).take p) > maxLen := by
  have hge := findByte_none_append 10 a b p hn hfound
  unfold tailLen at hearly
  unfold lineLen
  simp only [hl, if_true]
  have htake : (a ++ b).take p = a ++ b.take (p - a.length) := by
    rw [List.take_append]; simp [List.take_of_length_le hge]
  rw [htake]
  generalize b.take (p - a.length) = c
  cases c with
  | nil => simpa using hearly
  | cons x xs =>
    have h1 : (a ++ x :: xs).length = a.length + xs.length + 1 := by simp; omega
    have h2 : a.length - (if a.getLast? == some 13 then 1 else 0) ≤ a.length := by omega
    rw [h1]
    split <;> omega

/-! ### (3) body bytes are delivered compositionally -/

/-- concatenation of the data events -/
def dataOf : List Ev → Bytes
  | [] => []
  | .data bs :: t => bs ++ dataOf t
  | _ :: t => dataOf t

theorem dataOf_dataEv (bs : Bytes) (rest : List Ev) : dataOf (dataEv bs ++ rest) = bs ++ dataOf rest := by
  unfold dataEv
  split
  · next h =>
    have hb : bs = [] := by simpa using h
    subst hb; simp
  · simp [dataOf]

theorem dataOf_payloadFeed_length (cfg : Cfg) (p : PState) (chunk : Bytes) (ht : p.type = .length) :
    dataOf (payloadFeed cfg p chunk).2 = chunk.take p.length := by
  rcases p with ⟨ty, len, cs, csz, tl, trl, mt⟩
  simp only at ht; subst ht
  simp only [payloadFeed]
  split
  · have := dataOf_dataEv (chunk.take len) [.eof]
    simpa [dataOf] using this
  · have := dataOf_dataEv (chunk.take len) []
    simpa [dataOf] using this

/-- **Content-Length bodies.** Feeding `a` and then `b` to a length-delimited body that `a` does
not complete delivers the same bytes, ends in the same state and hands back the same surplus
as feeding `a ++ b` at once — for every split. -/
theorem length_body_compositional (cfg : Cfg) (p : PState) (a b : Bytes)
    (ht : p.type = .length) (hlt : a.length < p.length) :
    ∃ p', (payloadFeed cfg p a).1 = .needs p' ∧ p'.type = .length ∧
      (payloadFeed cfg p' b).1 = (payloadFeed cfg p (a ++ b)).1 ∧
      dataOf (payloadFeed cfg p a).2 ++ dataOf (payloadFeed cfg p' b).2
        = dataOf (payloadFeed cfg p (a ++ b)).2 := by
  have hdata := dataOf_payloadFeed_length cfg p
  rcases p with ⟨ty, len, cs, csz, tl, trl, mt⟩
  simp only at ht hlt
  subst ht
  have h1 : len - a.length ≠ 0 := by omega
  refine ⟨{ type := .length, length := len - a.length, cstate := cs, chunkSize := csz, tail := tl,
            trailerLines := trl, maxTrailers := mt }, ?_, rfl, ?_, ?_⟩
  · simp [payloadFeed, h1]
  · simp only [payloadFeed]
    have e : len - a.length - b.length = len - (a ++ b).length := by simp; omega
    have d : (a ++ b).drop len = b.drop (len - a.length) := by
      rw [List.drop_append]; simp [List.drop_of_length_le (Nat.le_of_lt hlt)]
    simp only [e, d]
    split <;> simp
  · rw [hdata a rfl, hdata (a ++ b) rfl, dataOf_payloadFeed_length cfg _ b rfl]
    simp only [List.take_append]
    try simp [List.take_of_length_le (Nat.le_of_lt hlt)]

/-- **Close-delimited bodies** are delivered byte for byte in any segmentation. -/
theorem untilEof_compositional (cfg : Cfg) (p : PState) (a b : Bytes) (ht : p.type = .untilEof) :
    (payloadFeed cfg p a).1 = .needs p ∧
    dataOf (payloadFeed cfg p a).2 ++ dataOf (payloadFeed cfg p b).2 = dataOf (payloadFeed cfg p (a ++ b)).2 := by
  rcases p with ⟨ty, len, cs, csz, tl, trl, mt⟩
  simp only at ht; subst ht
  constructor
  · simp [payloadFeed]
  · simp only [payloadFeed, dataEv]
    by_cases ha : a = [] <;> by_cases hb : b = [] <;> simp [ha, hb, dataOf] <;>
      (cases a <;> cases b <;> simp_all [dataOf])

/-- **Nothing after a rejection.** Once a read has been rejected the parser stays rejected and
delivers nothing, whatever is fed. -/
theorem feed_failed_latched (cfg : Cfg) (urlOk : Bool → Bytes → Bool) (st : St) (d : Bytes)
    (h : st.failed = true) :
    (feed cfg urlOk st d).evs = [] ∧ (feed cfg urlOk st d).st = st := by
  simp [feed, h]

end Aio.Http
