import AioModel.C20
/-!
Helper lemmas for the C20 lifecycle theorems (`AioProps/C20.lean`).
-/
namespace Aio.C20

/-! ## reading the log -/

@[simp] theorem enteredOf_nil : enteredOf [] = [] := rfl
@[simp] theorem exitsOf_nil : exitsOf [] = [] := rfl
@[simp] theorem enteredOf_append (l₁ l₂ : List Ev) :
    enteredOf (l₁ ++ l₂) = enteredOf l₁ ++ enteredOf l₂ := by simp [enteredOf]
@[simp] theorem exitsOf_append (l₁ l₂ : List Ev) :
    exitsOf (l₁ ++ l₂) = exitsOf l₁ ++ exitsOf l₂ := by simp [exitsOf]
@[simp] theorem enteredOf_cons_enter (a i : Nat) (l : List Ev) :
    enteredOf (.enter a i :: l) = enteredOf l := by simp [enteredOf]
@[simp] theorem enteredOf_cons_entered (a i : Nat) (l : List Ev) :
    enteredOf (.entered a i :: l) = (a, i) :: enteredOf l := by simp [enteredOf]
@[simp] theorem enteredOf_cons_exit (a i : Nat) (l : List Ev) :
    enteredOf (.exit a i :: l) = enteredOf l := by simp [enteredOf]
@[simp] theorem enteredOf_cons_sig (s : Sig) (i : Nat) (l : List Ev) :
    enteredOf (.sig s i :: l) = enteredOf l := by simp [enteredOf]
@[simp] theorem exitsOf_cons_enter (a i : Nat) (l : List Ev) :
    exitsOf (.enter a i :: l) = exitsOf l := by simp [exitsOf]
@[simp] theorem exitsOf_cons_entered (a i : Nat) (l : List Ev) :
    exitsOf (.entered a i :: l) = exitsOf l := by simp [exitsOf]
@[simp] theorem exitsOf_cons_exit (a i : Nat) (l : List Ev) :
    exitsOf (.exit a i :: l) = (a, i) :: exitsOf l := by simp [exitsOf]
@[simp] theorem exitsOf_cons_sig (s : Sig) (i : Nat) (l : List Ev) :
    exitsOf (.sig s i :: l) = exitsOf l := by simp [exitsOf]

@[simp] theorem enteredOf_cons_exitEnd (a i : Nat) (l : List Ev) :
    enteredOf (.exitEnd a i :: l) = enteredOf l := by simp [enteredOf]
@[simp] theorem enteredOf_cons_sigEnd (s : Sig) (i : Nat) (l : List Ev) :
    enteredOf (.sigEnd s i :: l) = enteredOf l := by simp [enteredOf]
@[simp] theorem exitsOf_cons_exitEnd (a i : Nat) (l : List Ev) :
    exitsOf (.exitEnd a i :: l) = exitsOf l := by simp [exitsOf]
@[simp] theorem exitsOf_cons_sigEnd (s : Sig) (i : Nat) (l : List Ev) :
    exitsOf (.sigEnd s i :: l) = exitsOf l := by simp [exitsOf]

@[simp] theorem enteredOf_handlerEvs (s : Sig) (id : Nat) (f : Fail) : enteredOf (handlerEvs s id f) = [] := by
  unfold handlerEvs; split <;> simp
@[simp] theorem exitsOf_handlerEvs (s : Sig) (id : Nat) (f : Fail) : exitsOf (handlerEvs s id f) = [] := by
  unfold handlerEvs; split <;> simp

@[simp] theorem groupsOf_nil : groupsOf [] = [] := rfl
@[simp] theorem groupsOf_cons_grp (a : Nat) (l : List Step) :
    groupsOf (.grp a :: l) = a :: groupsOf l := by simp [groupsOf]
@[simp] theorem groupsOf_cons_h (i : Nat) (f : Fail) (l : List Step) :
    groupsOf (.h i f :: l) = groupsOf l := by simp [groupsOf]

/-! ## CleanupContext._on_startup -/

/-- number of leading contexts whose start-up code succeeds -/
def okPrefix : List Ctx → Nat
  | [] => 0
  | c :: cs => if c.enter = .ok then okPrefix cs + 1 else 0

theorem okPrefix_le (cs : List Ctx) : okPrefix cs ≤ cs.length := by
  induction cs with
  | nil => simp [okPrefix]
  | cons c cs ih => simp only [okPrefix]; split <;> simp <;> omega

theorem enterAll_entered (a : Nat) (cs : List Ctx) (i : Nat) :
    (enterAll a i cs).entered = List.range' i (okPrefix cs) := by
  induction cs generalizing i with
  | nil => simp [enterAll, okPrefix]
  | cons c cs ih =>
    simp only [enterAll, okPrefix]
    split
    · simp [ih, List.range'_succ]
    · simp

theorem enterAll_log (a : Nat) (cs : List Ctx) (i : Nat) :
    enteredOf (enterAll a i cs).ev = (enterAll a i cs).entered.map (fun j => (a, j)) ∧
      exitsOf (enterAll a i cs).ev = [] := by
  induction cs generalizing i with
  | nil => simp [enterAll]
  | cons c cs ih =>
    simp only [enterAll]
    split
    · simp [ih]
    · simp

theorem enterAll_err (a : Nat) (cs : List Ctx) (i : Nat) :
    (enterAll a i cs).err = none ↔ okPrefix cs = cs.length := by
  induction cs generalizing i with
  | nil => simp [enterAll, okPrefix]
  | cons c cs ih =>
    simp only [enterAll, okPrefix]
    split
    · simp [ih]
    · simp

theorem range'_nodup (i n : Nat) : (List.range' i n).Nodup := by
  induction n generalizing i with
  | zero => simp
  | succ n ih =>
    rw [List.range'_succ, List.nodup_cons]
    refine ⟨?_, ih _⟩
    intro h
    have := (List.mem_range'_1.mp h).1
    omega

theorem enterAll_nodup (a : Nat) (cs : List Ctx) (i : Nat) : (enterAll a i cs).entered.Nodup := by
  rw [enterAll_entered]; exact range'_nodup _ _

/-! ## CleanupContext._on_cleanup -/

theorem exitAll_log (a : Nat) (cs : List Ctx) (l : List Nat) :
    exitsOf (exitAll a cs l).1 = l.map (fun j => (a, j)) ∧ enteredOf (exitAll a cs l).1 = [] := by
  induction l with
  | nil => simp [exitAll]
  | cons i l ih => simp [exitAll, ih]

theorem groupCleanup_log (a : Nat) (cs : List Ctx) (x : List Nat) :
    exitsOf (groupCleanup a cs x).1 = x.reverse.map (fun j => (a, j)) ∧
      enteredOf (groupCleanup a cs x).1 = [] := by
  simp [groupCleanup, exitAll_log]

theorem exitAll_errs (a : Nat) (cs : List Ctx) (l : List Nat) :
    (exitAll a cs l).2 = [] ↔ ∀ i ∈ l, exitFail cs i = .ok := by
  induction l with
  | nil => simp [exitAll]
  | cons i l ih =>
    simp only [exitAll]
    split
    · next h => simp [ih, h]
    · next h => simp [h]

theorem raiseCollected_none (os : List Origin) : raiseCollected os = none ↔ os = [] := by
  cases os with
  | nil => simp [raiseCollected]
  | cons o t => cases t <;> simp [raiseCollected]

/-! ## Signal.send -/

/-- a chain of user handlers only (no context callbacks) -/
def HandlersOnly (l : List Step) : Prop := ∀ st ∈ l, ∃ id f, st = Step.h id f

theorem send_handlers (tbl : List AppDef) (s : Sig) (l : List Step) (X : Exits)
    (h : HandlersOnly l) :
    enteredOf (send tbl s l X).ev = [] ∧ exitsOf (send tbl s l X).ev = [] ∧ (send tbl s l X).X = X := by
  induction l generalizing X with
  | nil => simp [send]
  | cons st l ih =>
    obtain ⟨id, f, rfl⟩ := h st (by simp)
    have hl : HandlersOnly l := fun st' hst' => h st' (by simp [hst'])
    simp only [send, runStep]
    split
    · simp
    · simp [ih X hl]

theorem send_handlers_ok (tbl : List AppDef) (s : Sig) (l : List Step) (X : Exits)
    (h : ∀ st ∈ l, ∃ id, st = Step.h id .ok) : (send tbl s l X).err = none := by
  induction l generalizing X with
  | nil => simp [send]
  | cons st l ih =>
    obtain ⟨id, rfl⟩ := h st (by simp)
    have hl : ∀ st ∈ l, ∃ id, st = Step.h id .ok := fun st' hst' => h st' (by simp [hst'])
    simp [send, runStep, ih _ hl]

/-- the `on_shutdown` signal runs no cleanup-context code, whatever its chain -/
theorem send_shutdown_log (tbl : List AppDef) (l : List Step) (X : Exits) :
    enteredOf (send tbl .shutdown l X).ev = [] ∧ exitsOf (send tbl .shutdown l X).ev = [] ∧
      (send tbl .shutdown l X).X = X := by
  induction l generalizing X with
  | nil => simp [send]
  | cons st l ih =>
    cases st with
    | grp a => simp [send, runStep, ih]
    | h id f =>
      simp only [send, runStep]
      split
      · simp
      · simp [ih]

/-- start-up never runs cleanup code -/
theorem send_startup_exits (tbl : List AppDef) (l : List Step) (X : Exits) :
    exitsOf (send tbl .startup l X).ev = [] := by
  induction l generalizing X with
  | nil => simp [send]
  | cons st l ih =>
    cases st with
    | grp a =>
      simp only [send, runStep]
      split
      · simp [(enterAll_log a (ctxsOf tbl a) 0).2]
      · simp [(enterAll_log a (ctxsOf tbl a) 0).2, ih]
    | h id f =>
      simp only [send, runStep]
      split
      · simp
      · simp [ih]

/-- after start-up, every recorded exit belongs to a context whose start-up completed (it
is in the log), and `_exits` has no duplicates — provided no application is started twice -/
theorem send_startup_inv (tbl : List AppDef) (l : List Step) (X : Exits) (E : List (Nat × Nat))
    (hnd : (groupsOf l).Nodup) (hfresh : ∀ a ∈ groupsOf l, X a = [])
    (hX : ∀ a, (X a).Nodup ∧ ∀ i ∈ X a, (a, i) ∈ E) :
    ∀ a, ((send tbl .startup l X).X a).Nodup ∧
      ∀ i ∈ (send tbl .startup l X).X a, (a, i) ∈ E ++ enteredOf (send tbl .startup l X).ev := by
  induction l generalizing X E with
  | nil => intro a; simpa [send] using hX a
  | cons st l ih =>
    cases st with
    | h id f =>
      simp only [groupsOf_cons_h] at hnd hfresh
      simp only [send, runStep]
      split
      · intro a; simpa using hX a
      · intro a
        have := ih X E hnd hfresh hX a
        simpa using this
    | grp g =>
      simp only [groupsOf_cons_grp, List.nodup_cons] at hnd
      have hg : X g = [] := hfresh g (by simp)
      have hlog := (enterAll_log g (ctxsOf tbl g) 0).1
      -- state after the group's start-up
      have hX' : ∀ a, ((X.set g (X g ++ (enterAll g 0 (ctxsOf tbl g)).entered)) a).Nodup ∧
          ∀ i ∈ (X.set g (X g ++ (enterAll g 0 (ctxsOf tbl g)).entered)) a,
            (a, i) ∈ E ++ enteredOf (enterAll g 0 (ctxsOf tbl g)).ev := by
        intro a
        by_cases hag : a = g
        · subst hag
          simp only [Exits.set, if_true, hg, List.nil_append]
          refine ⟨enterAll_nodup _ _ _, ?_⟩
          intro i hi
          rw [hlog]
          simp only [List.mem_append, List.mem_map]
          exact Or.inr ⟨i, hi, rfl⟩
        · simp only [Exits.set, if_neg hag]
          refine ⟨(hX a).1, ?_⟩
          intro i hi
          simp only [List.mem_append]
          exact Or.inl ((hX a).2 i hi)
      simp only [send, runStep]
      split
      · intro a; simpa using hX' a
      · intro a
        have hfresh' : ∀ b ∈ groupsOf l, (X.set g (X g ++ (enterAll g 0 (ctxsOf tbl g)).entered)) b = [] := by
          intro b hb
          have hbg : b ≠ g := fun h => hnd.1 (h ▸ hb)
          simp only [Exits.set, if_neg hbg]
          exact hfresh b (by simp [hb])
        have := ih _ (E ++ enteredOf (enterAll g 0 (ctxsOf tbl g)).ev) hnd.2 hfresh' hX' a
        simpa [List.append_assoc] using this

/-- cleanup: no start-up code runs, `_exits` is not modified -/
theorem send_cleanup_basic (tbl : List AppDef) (l : List Step) (X : Exits) :
    enteredOf (send tbl .cleanup l X).ev = [] ∧ (send tbl .cleanup l X).X = X := by
  induction l generalizing X with
  | nil => simp [send]
  | cons st l ih =>
    cases st with
    | grp a =>
      simp only [send, runStep]
      split
      · simp [(groupCleanup_log a (ctxsOf tbl a) (X a)).2]
      · simp [(groupCleanup_log a (ctxsOf tbl a) (X a)).2, ih]
    | h id f =>
      simp only [send, runStep]
      split
      · simp
      · simp [ih]

/-- the applications whose `_on_cleanup` is reached by the `on_cleanup` send -/
def reached (tbl : List AppDef) (X : Exits) : List Step → List Nat
  | [] => []
  | .grp a :: rest =>
    a :: (if (groupCleanup a (ctxsOf tbl a) (X a)).2 = none then reached tbl X rest else [])
  | .h _ f :: rest => if f = .ok then reached tbl X rest else []

theorem reached_sublist (tbl : List AppDef) (X : Exits) (l : List Step) :
    (reached tbl X l).Sublist (groupsOf l) := by
  induction l with
  | nil => simp [reached]
  | cons st l ih =>
    cases st with
    | grp a =>
      simp only [reached, groupsOf_cons_grp]
      split
      · exact ih.cons_cons a
      · exact (List.nil_sublist _).cons_cons a
    | h id f =>
      simp only [reached, groupsOf_cons_h]
      split
      · exact ih
      · exact List.nil_sublist _

theorem send_cleanup_exits (tbl : List AppDef) (l : List Step) (X : Exits) :
    exitsOf (send tbl .cleanup l X).ev =
      (reached tbl X l).flatMap (fun g => (X g).reverse.map (fun j => (g, j))) := by
  induction l with
  | nil => simp [send, reached]
  | cons st l ih =>
    cases st with
    | grp a =>
      simp only [send, runStep, reached]
      cases hE : (groupCleanup a (ctxsOf tbl a) (X a)).2 with
      | some e => simp [(groupCleanup_log a (ctxsOf tbl a) (X a)).1]
      | none => simp [(groupCleanup_log a (ctxsOf tbl a) (X a)).1, ih]
    | h id f =>
      simp only [send, runStep, reached]
      by_cases hf : f = .ok
      · simp [hf, ih]
      · simp [hf]

theorem send_cleanup_reached_all (tbl : List AppDef) (l : List Step) (X : Exits)
    (h : (send tbl .cleanup l X).err = none) : reached tbl X l = groupsOf l := by
  induction l with
  | nil => simp [reached]
  | cons st l ih =>
    cases st with
    | grp a =>
      simp only [send, runStep] at h
      simp only [reached, groupsOf_cons_grp]
      cases hE : (groupCleanup a (ctxsOf tbl a) (X a)).2 with
      | some e => simp [hE] at h
      | none =>
        simp only [hE] at h
        simp [ih h]
    | h id f =>
      simp only [send, runStep] at h
      simp only [reached, groupsOf_cons_h]
      by_cases hf : f = .ok
      · simp only [hf, if_true] at h ⊢
        exact ih h
      · simp [hf] at h

theorem reverse_nodup (l : List Nat) (h : l.Nodup) : l.reverse.Nodup := by
  unfold List.Nodup at *
  rw [List.pairwise_reverse]
  exact h.imp (fun hab => fun e => hab e.symm)

theorem pairs_nodup (g : Nat) (l : List Nat) (h : l.Nodup) : (l.map (fun j => (g, j))).Nodup := by
  induction l with
  | nil => simp
  | cons x l ih =>
    simp only [List.nodup_cons] at h
    simp only [List.map_cons, List.nodup_cons, List.mem_map, Prod.mk.injEq, true_and, exists_eq_right]
    exact ⟨h.1, ih h.2⟩

theorem flatMap_pairs_nodup (gs : List Nat) (X : Exits) (hg : gs.Nodup) (hX : ∀ a, (X a).Nodup) :
    (gs.flatMap (fun g => (X g).reverse.map (fun j => (g, j)))).Nodup := by
  induction gs with
  | nil => simp
  | cons g gs ih =>
    simp only [List.nodup_cons] at hg
    simp only [List.flatMap_cons]
    rw [List.nodup_append]
    refine ⟨?_, ih hg.2, ?_⟩
    · exact pairs_nodup g _ (reverse_nodup _ (hX g))
    · intro p hp q hq hpq
      simp only [List.mem_map, List.mem_reverse] at hp
      obtain ⟨j, _, rfl⟩ := hp
      simp only [List.mem_flatMap, List.mem_map, List.mem_reverse] at hq
      obtain ⟨g', hg', j', _, rfl⟩ := hq
      simp only [Prod.mk.injEq] at hpq
      exact hg.1 (hpq.1 ▸ hg')

theorem mem_flatMap_pairs (gs : List Nat) (X : Exits) (p : Nat × Nat)
    (hp : p ∈ gs.flatMap (fun g => (X g).reverse.map (fun j => (g, j)))) : p.2 ∈ X p.1 := by
  simp only [List.mem_flatMap, List.mem_map, List.mem_reverse] at hp
  obtain ⟨g, _, j, hj, rfl⟩ := hp
  exact hj

end Aio.C20

namespace Aio.C20

/-! ## chains of a single application / of the form `grp a :: handlers` -/

theorem rootChain_single (d : AppDef) (s : Sig)
    (hsub : ∀ sl ∈ slotsOf s d, ∃ id f, sl = Slot.h id f) :
    ∃ hs, HandlersOnly hs ∧ (∀ id f, Step.h id f ∈ hs → Slot.h id f ∈ slotsOf s d) ∧
      rootChain [d] s = (if s = .shutdown then [] else [Step.grp 0]) ++ hs := by
  refine ⟨(slotsOf s d).flatMap (fun sl => match sl with
      | .h id f => [Step.h id f]
      | .sub j => chain [d] s 1 j), ?_, ?_, ?_⟩
  · intro st hst
    simp only [List.mem_flatMap] at hst
    obtain ⟨sl, hsl, hst⟩ := hst
    obtain ⟨id, f, rfl⟩ := hsub sl hsl
    simp only [List.mem_singleton] at hst
    exact ⟨id, f, hst⟩
  · intro id f hst
    simp only [List.mem_flatMap] at hst
    obtain ⟨sl, hsl, hst⟩ := hst
    obtain ⟨id', f', rfl⟩ := hsub sl hsl
    simp only [List.mem_singleton, Step.h.injEq] at hst
    obtain ⟨rfl, rfl⟩ := hst
    exact hsl
  · rfl

theorem send_startup_grp_handlers (tbl : List AppDef) (a : Nat) (hs : List Step) (X : Exits)
    (h : HandlersOnly hs) :
    (send tbl .startup (Step.grp a :: hs) X).X = X.set a (X a ++ (enterAll a 0 (ctxsOf tbl a)).entered) ∧
      enteredOf (send tbl .startup (Step.grp a :: hs) X).ev =
        (enterAll a 0 (ctxsOf tbl a)).entered.map (fun j => (a, j)) ∧
      exitsOf (send tbl .startup (Step.grp a :: hs) X).ev = [] := by
  have hlog := enterAll_log a (ctxsOf tbl a) 0
  have hh := send_handlers tbl .startup hs (X.set a (X a ++ (enterAll a 0 (ctxsOf tbl a)).entered)) h
  simp only [send, runStep]
  split
  · exact ⟨rfl, hlog.1, hlog.2⟩
  · simp only [enteredOf_append, exitsOf_append]
    exact ⟨hh.2.2, by rw [hh.1, hlog.1]; simp, by rw [hh.2.1, hlog.2]; rfl⟩

theorem send_cleanup_grp_handlers (tbl : List AppDef) (a : Nat) (hs : List Step) (X : Exits)
    (h : HandlersOnly hs) :
    exitsOf (send tbl .cleanup (Step.grp a :: hs) X).ev = (X a).reverse.map (fun j => (a, j)) ∧
      enteredOf (send tbl .cleanup (Step.grp a :: hs) X).ev = [] := by
  have hlog := groupCleanup_log a (ctxsOf tbl a) (X a)
  have hh := send_handlers tbl .cleanup hs X h
  simp only [send, runStep]
  split
  · exact hlog
  · simp only [enteredOf_append, exitsOf_append]
    exact ⟨by rw [hh.2.1, hlog.1]; simp, by rw [hh.1, hlog.2]; rfl⟩

/-! ## the two entry points as compositions of runner steps -/

theorem lifeLog_runner (tbl : List AppDef) :
    lifeLog tbl .runner =
      (Runner.step tbl {} .setup).ev ++ (Runner.step tbl (Runner.step tbl {} .setup).r .cleanup).ev := by
  simp [lifeLog, runRunner]

theorem lifeLog_runApp (tbl : List AppDef) :
    lifeLog tbl .runApp =
      if (Runner.step tbl {} .setup).err = none then lifeLog tbl .runner
      else (Runner.step tbl {} .setup).ev := by
  rw [lifeLog_runner]
  simp only [lifeLog, runApp]
  cases h : (Runner.step tbl {} .setup).err <;> simp

theorem send_startup_exits_setup (tbl : List AppDef) (r : Runner) :
    exitsOf (Runner.step tbl r .setup).ev = [] := by
  simp only [Runner.step]
  split <;> exact send_startup_exits _ _ _

/-- `runner.setup()` on a fresh runner -/
theorem setup_spec (tbl : List AppDef) (hnd : (groupsOf (rootChain tbl .startup)).Nodup) :
    exitsOf (Runner.step tbl {} .setup).ev = [] ∧
      ∀ a, ((Runner.step tbl {} .setup).r.X a).Nodup ∧
        ∀ i ∈ (Runner.step tbl {} .setup).r.X a, (a, i) ∈ enteredOf (Runner.step tbl {} .setup).ev := by
  have h1 := send_startup_exits tbl (rootChain tbl .startup) Exits.empty
  have h2 := send_startup_inv tbl (rootChain tbl .startup) Exits.empty [] hnd
    (fun _ _ => rfl) (fun a => by simp [Exits.empty])
  simp only [Runner.step]
  split
  · exact ⟨h1, by simpa using h2⟩
  · exact ⟨h1, by simpa using h2⟩

/-- `runner.cleanup()` from any runner state -/
theorem cleanup_spec (tbl : List AppDef) (r : Runner)
    (hnd : (groupsOf (rootChain tbl .cleanup)).Nodup) (hX : ∀ a, (r.X a).Nodup) :
    enteredOf (Runner.step tbl r .cleanup).ev = [] ∧ (exitsOf (Runner.step tbl r .cleanup).ev).Nodup ∧
      ∀ p ∈ exitsOf (Runner.step tbl r .cleanup).ev, p.2 ∈ r.X p.1 := by
  have hsd : ∀ (sd : Out), sd = (if r.server then send tbl .shutdown (rootChain tbl .shutdown) r.X
      else ⟨[], r.X, none⟩) → enteredOf sd.ev = [] ∧ exitsOf sd.ev = [] := by
    intro sd hsd
    subst hsd
    split
    · exact ⟨(send_shutdown_log _ _ _).1, (send_shutdown_log _ _ _).2.1⟩
    · exact ⟨rfl, rfl⟩
  have hcl : ∀ (cl : List Ev × Option Err), cl = (if r.frozen then
        ((send tbl .cleanup (rootChain tbl .cleanup) r.X).ev, (send tbl .cleanup (rootChain tbl .cleanup) r.X).err)
      else groupCleanup 0 (ctxsOf tbl 0) (r.X 0)) →
      enteredOf cl.1 = [] ∧ (exitsOf cl.1).Nodup ∧ ∀ p ∈ exitsOf cl.1, p.2 ∈ r.X p.1 := by
    intro cl hcl
    subst hcl
    split
    · refine ⟨(send_cleanup_basic _ _ _).1, ?_, ?_⟩
      · rw [send_cleanup_exits]
        exact flatMap_pairs_nodup _ _ ((reached_sublist tbl r.X _).nodup hnd) hX
      · rw [send_cleanup_exits]
        exact fun p hp => mem_flatMap_pairs _ _ p hp
    · have := groupCleanup_log 0 (ctxsOf tbl 0) (r.X 0)
      refine ⟨this.2, ?_, ?_⟩
      · rw [this.1]; exact pairs_nodup 0 _ (reverse_nodup _ (hX 0))
      · rw [this.1]
        intro p hp
        simp only [List.mem_map, List.mem_reverse] at hp
        obtain ⟨j, hj, rfl⟩ := hp
        exact hj
  have hsd' := hsd _ rfl
  have hcl' := hcl _ rfl
  simp only [Runner.step]
  split
  · exact ⟨hsd'.1, by rw [hsd'.2]; simp, by rw [hsd'.2]; simp⟩
  · split
    · simp only [enteredOf_append, exitsOf_append, hsd'.1, hsd'.2, List.nil_append]
      exact hcl'
    · simp only [enteredOf_append, exitsOf_append, hsd'.1, hsd'.2, List.nil_append]
      exact hcl'

end Aio.C20

namespace Aio.C20

/-! ## the whole tree when nothing raises -/

/-- start-up that does not raise: the log lists, group by group, exactly what `_exits` holds -/
theorem send_startup_full (tbl : List AppDef) (l : List Step) (X : Exits)
    (hnd : (groupsOf l).Nodup) (hfresh : ∀ a ∈ groupsOf l, X a = [])
    (hok : (send tbl .startup l X).err = none) :
    enteredOf (send tbl .startup l X).ev =
        (groupsOf l).flatMap (fun g => ((send tbl .startup l X).X g).map (fun j => (g, j))) ∧
      ∀ a, a ∉ groupsOf l → (send tbl .startup l X).X a = X a := by
  induction l generalizing X with
  | nil => simp [send]
  | cons st l ih =>
    cases st with
    | h id f =>
      simp only [groupsOf_cons_h] at hnd hfresh ⊢
      simp only [send, runStep] at hok ⊢
      by_cases hf : f = .ok
      · simp only [hf, if_true] at hok ⊢
        have := ih X hnd hfresh hok
        simpa using this
      · simp [hf] at hok
    | grp g =>
      simp only [groupsOf_cons_grp, List.nodup_cons] at hnd
      simp only [groupsOf_cons_grp]
      have hg : X g = [] := hfresh g (by simp)
      have hlog := (enterAll_log g (ctxsOf tbl g) 0).1
      simp only [send, runStep] at hok ⊢
      cases he : (enterAll g 0 (ctxsOf tbl g)).err with
      | some e => simp [he] at hok
      | none =>
        simp only [he, Option.map_none] at hok ⊢
        have hfresh' : ∀ b ∈ groupsOf l, (X.set g (X g ++ (enterAll g 0 (ctxsOf tbl g)).entered)) b = [] := by
          intro b hb
          have hbg : b ≠ g := fun h => hnd.1 (h ▸ hb)
          simp only [Exits.set, if_neg hbg]
          exact hfresh b (by simp [hb])
        have IH := ih _ hnd.2 hfresh' hok
        have hXg : (send tbl .startup l (X.set g (X g ++ (enterAll g 0 (ctxsOf tbl g)).entered))).X g =
            (enterAll g 0 (ctxsOf tbl g)).entered := by
          rw [IH.2 g hnd.1]; simp [Exits.set, hg]
        refine ⟨?_, ?_⟩
        · simp only [enteredOf_append, List.flatMap_cons, IH.1, hXg, hlog]
        · intro a ha
          simp only [List.mem_cons, not_or] at ha
          rw [IH.2 a ha.2]
          simp [Exits.set, ha.1]

theorem filter_flatMap_pairs (gs : List Nat) (f : Nat → List Nat) (a : Nat) (hg : gs.Nodup) :
    (gs.flatMap (fun g => (f g).map (fun j => (g, j)))).filter (fun p => p.1 = a) =
      if a ∈ gs then (f a).map (fun j => (a, j)) else [] := by
  induction gs with
  | nil => simp
  | cons g gs ih =>
    simp only [List.nodup_cons] at hg
    simp only [List.flatMap_cons, List.filter_append, ih hg.2]
    by_cases hga : g = a
    · subst hga
      have h1 : ((f g).map (fun j => (g, j))).filter (fun p => decide (p.1 = g)) = (f g).map (fun j => (g, j)) := by
        rw [List.filter_eq_self]; intro p hp
        simp only [List.mem_map] at hp
        obtain ⟨j, _, rfl⟩ := hp
        simp
      simp [h1, hg.1]
    · have h1 : ((f g).map (fun j => (g, j))).filter (fun p => decide (p.1 = a)) = [] := by
        rw [List.filter_eq_nil_iff]; intro p hp
        simp only [List.mem_map] at hp
        obtain ⟨j, _, rfl⟩ := hp
        simp [hga]
      have : (a = g) = False := by simp [Ne.symm hga]
      simp [h1, this]

end Aio.C20

namespace Aio.C20

/-! ## teardowns never overlap -/

def isTeardownEv : Ev → Bool
  | .exit _ _ => true
  | .exitEnd _ _ => true
  | _ => false

/-- no teardown event at all -/
def quiet (l : List Ev) : Bool := l.all (fun e => !isTeardownEv e)

theorem quiet_append (l₁ l₂ : List Ev) : quiet (l₁ ++ l₂) = (quiet l₁ && quiet l₂) := by
  simp [quiet, List.all_append]

theorem nestedFrom_append (st : Option (Nat × Nat)) (l₁ l₂ : List Ev)
    (h : nestedFrom st l₁ = true) : nestedFrom st (l₁ ++ l₂) = nestedFrom none l₂ := by
  induction l₁ generalizing st with
  | nil => cases st <;> simp_all [nestedFrom]
  | cons e l ih =>
    cases st with
    | none =>
      cases e <;> simp_all [nestedFrom]
    | some p =>
      cases e <;> simp_all [nestedFrom]

theorem nested_of_quiet (l : List Ev) (h : quiet l = true) : nestedFrom none l = true := by
  induction l with
  | nil => rfl
  | cons e l ih =>
    simp only [quiet, List.all_cons, Bool.and_eq_true] at h
    have hl : quiet l = true := h.2
    cases e <;> simp_all [nestedFrom, isTeardownEv]

theorem nested_append (l₁ l₂ : List Ev) (h₁ : nestedFrom none l₁ = true) (h₂ : nestedFrom none l₂ = true) :
    nestedFrom none (l₁ ++ l₂) = true := by
  rw [nestedFrom_append none l₁ l₂ h₁]; exact h₂

theorem enterAll_quiet (a : Nat) (cs : List Ctx) (i : Nat) : quiet (enterAll a i cs).ev = true := by
  induction cs generalizing i with
  | nil => rfl
  | cons c cs ih =>
    simp only [enterAll]
    split
    · have := ih (i + 1)
      simp_all [quiet, isTeardownEv]
    · simp [quiet, isTeardownEv]

theorem exitAll_nested (a : Nat) (cs : List Ctx) (l : List Nat) : nestedFrom none (exitAll a cs l).1 = true := by
  induction l with
  | nil => rfl
  | cons i l ih => simp [exitAll, nestedFrom, ih]

theorem send_quiet (tbl : List AppDef) (s : Sig) (hs : s ≠ .cleanup) (l : List Step) (X : Exits) :
    quiet (send tbl s l X).ev = true := by
  induction l generalizing X with
  | nil => rfl
  | cons st l ih =>
    have hstep : quiet (runStep tbl s X st).ev = true := by
      cases st with
      | h id f => simp only [runStep, handlerEvs]; split <;> simp [quiet, isTeardownEv]
      | grp a =>
        cases s with
        | startup => exact enterAll_quiet a _ 0
        | shutdown => rfl
        | cleanup => exact absurd rfl hs
    simp only [send]
    split
    · exact hstep
    · simp [quiet_append, hstep, ih]

theorem send_cleanup_nested (tbl : List AppDef) (l : List Step) (X : Exits) :
    nestedFrom none (send tbl .cleanup l X).ev = true := by
  induction l generalizing X with
  | nil => rfl
  | cons st l ih =>
    have hstep : nestedFrom none (runStep tbl .cleanup X st).ev = true := by
      cases st with
      | h id f => simp only [runStep, handlerEvs]; split <;> simp [nestedFrom]
      | grp a => exact exitAll_nested a _ _
    simp only [send]
    split
    · exact hstep
    · exact nested_append _ _ hstep (ih _)

theorem step_nested (tbl : List AppDef) (r : Runner) (op : ROp) :
    nestedFrom none (Runner.step tbl r op).ev = true := by
  cases op with
  | setup =>
    have := nested_of_quiet _ (send_quiet tbl .startup (by simp) (rootChain tbl .startup) r.X)
    simp only [Runner.step]
    split <;> exact this
  | cleanup =>
    have hsd : nestedFrom none (if r.server then send tbl .shutdown (rootChain tbl .shutdown) r.X
        else (⟨[], r.X, none⟩ : Out)).ev = true := by
      split
      · exact nested_of_quiet _ (send_quiet tbl .shutdown (by simp) _ _)
      · rfl
    have hcl : nestedFrom none (if r.frozen then
          ((send tbl .cleanup (rootChain tbl .cleanup) r.X).ev, (send tbl .cleanup (rootChain tbl .cleanup) r.X).err)
        else groupCleanup 0 (ctxsOf tbl 0) (r.X 0)).1 = true := by
      split
      · exact send_cleanup_nested _ _ _
      · exact exitAll_nested _ _ _
    simp only [Runner.step]
    split
    · exact hsd
    · split
      · exact nested_append _ _ hsd hcl
      · exact nested_append _ _ hsd hcl

end Aio.C20
