import AioModel.Http
/-! Helper lemmas about the HTTP parser model shared by C01 / C03 / C10. -/
namespace Aio.Http
open Aio

theorem forall_uint8 (P : UInt8 → Prop) (h : ∀ n : Fin 256, P (n.val.toUInt8)) : ∀ b, P b := by
  intro b
  have := h ⟨b.toNat, b.toNat_lt⟩
  simpa using this

/-! ### facts about the generated tables (re-checked whenever the source tables change) -/

theorem tchar_table : ∀ b : UInt8, isTchar b = true →
    (33 ≤ b.toNat ∧ b.toNat ≤ 126 ∧ b ≠ 34 ∧ b ≠ 40 ∧ b ≠ 41 ∧ b ≠ 44 ∧ b ≠ 47 ∧ b ≠ 58 ∧ b ≠ 59 ∧
     b ≠ 60 ∧ b ≠ 61 ∧ b ≠ 62 ∧ b ≠ 63 ∧ b ≠ 64 ∧ b ≠ 91 ∧ b ≠ 92 ∧ b ≠ 93 ∧ b ≠ 123 ∧ b ≠ 125) := by
  apply forall_uint8; decide +kernel

theorem valueForbidden_table : ∀ b : UInt8,
    ((b.toNat < 32 ∧ b ≠ 9) ∨ b = 127) → valueForbidden b = true := by
  apply forall_uint8; decide +kernel

theorem targetForbidden_table : ∀ b : UInt8, (b.toNat ≤ 32 ∨ b = 127) → targetForbidden b = true := by
  apply forall_uint8; decide +kernel

theorem digit_table : ∀ b : UInt8, isDigitB b = true ↔ (48 ≤ b.toNat ∧ b.toNat ≤ 57) := by
  apply forall_uint8; decide +kernel

theorem hex_table : ∀ b : UInt8, isHexB b = true ↔
    ((48 ≤ b.toNat ∧ b.toNat ≤ 57) ∨ (65 ≤ b.toNat ∧ b.toNat ≤ 70) ∨ (97 ≤ b.toNat ∧ b.toNat ≤ 102)) := by
  apply forall_uint8; decide +kernel

theorem versdigit_table : ∀ b : UInt8, isVersDigit b = true ↔ (48 ≤ b.toNat ∧ b.toNat ≤ 57) := by
  apply forall_uint8; decide +kernel


/-! ### small list lemmas -/

theorem cut1_spec (c : UInt8) (bs x y : Bytes) (h : cut1 c bs = some (x, y)) :
    bs = x ++ c :: y ∧ c ∉ x := by
  induction bs generalizing x with
  | nil => simp [cut1] at h
  | cons b t ih =>
    simp only [cut1] at h
    split at h
    · next hb => injection h with h; injection h with h1 h2; subst h1 h2 hb; simp
    · next hb =>
      cases hc : cut1 c t with
      | none => simp [hc] at h
      | some r =>
        obtain ⟨x', y'⟩ := r
        simp [hc] at h
        obtain ⟨h1, h2⟩ := h
        subst h1 h2
        obtain ⟨e, hn⟩ := ih x' hc
        constructor
        · simp [e]
        · intro hm
          rcases List.mem_cons.mp hm with hm | hm
          · exact hb hm.symm
          · exact hn hm

theorem cut1_none (c : UInt8) (bs : Bytes) (h : cut1 c bs = none) : c ∉ bs := by
  induction bs with
  | nil => simp
  | cons b t ih =>
    simp only [cut1] at h
    split at h
    · cases h
    · next hb =>
      cases hc : cut1 c t with
      | none =>
        intro hm
        rcases List.mem_cons.mp hm with hm | hm
        · exact hb hm.symm
        · exact ih hc hm
      | some r => simp [hc] at h

theorem lstrip_spec (p : UInt8 → Bool) (bs : Bytes) :
    ∃ l, bs = l ++ lstrip p bs ∧ l.all p = true ∧ (∀ b, (lstrip p bs).head? = some b → p b = false) := by
  induction bs with
  | nil => exact ⟨[], by simp [lstrip]⟩
  | cons b t ih =>
    simp only [lstrip]
    split
    · next hp =>
      obtain ⟨l, e, hl, hh⟩ := ih
      refine ⟨b :: l, ?_, by simp [hp, hl], hh⟩
      simp; exact e
    · next hp =>
      refine ⟨[], by simp, by simp, ?_⟩
      intro b' hb'; simp at hb'; subst hb'; simpa using hp

theorem rstrip_spec (p : UInt8 → Bool) (bs : Bytes) :
    ∃ r, bs = rstrip p bs ++ r ∧ r.all p = true ∧ (∀ b, (rstrip p bs).getLast? = some b → p b = false) := by
  obtain ⟨l, e, hl, hh⟩ := lstrip_spec p bs.reverse
  refine ⟨l.reverse, ?_, by simpa using hl, ?_⟩
  · have := congrArg List.reverse e
    simp at this
    simpa [rstrip] using this
  · intro b hb
    apply hh b
    simpa [rstrip, List.getLast?_reverse] using hb

theorem strip_spec (p : UInt8 → Bool) (bs : Bytes) :
    ∃ l r, bs = l ++ strip p bs ++ r ∧ l.all p = true ∧ r.all p = true ∧
      (∀ b, (strip p bs).head? = some b → p b = false) ∧
      (∀ b, (strip p bs).getLast? = some b → p b = false) := by
  obtain ⟨l, e1, hl, hh⟩ := lstrip_spec p bs
  obtain ⟨r, e2, hr, ht⟩ := rstrip_spec p (lstrip p bs)
  refine ⟨l, r, ?_, hl, hr, ?_, ht⟩
  · unfold strip; rw [List.append_assoc, ← e2]; exact e1
  · intro b hb
    -- the head of rstrip (lstrip bs) is the head of lstrip bs (if non-empty)
    unfold strip at hb
    cases hs : rstrip p (lstrip p bs) with
    | nil => simp [hs] at hb
    | cons x xs =>
      rw [hs] at hb; simp at hb; subst hb
      have : (lstrip p bs).head? = some x := by rw [e2, hs]; simp
      exact hh x this

end Aio.Http
