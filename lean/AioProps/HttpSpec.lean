import AioModel.Http
/-!
# A strict RFC 9112 / RFC 9110 reading (specification side, kept short on purpose)

* `StrictField line name value` : `field-line = field-name ":" OWS field-value OWS`, `field-name
  = token`, the value free of forbidden control bytes and without leading/trailing OWS.
* `FieldsOf lines hs` : a header section — field lines up to the first empty line.
* `StrictRequestLine line method target vmaj vmin` : `method SP request-target SP HTTP/d.d`.
-/
namespace Aio.Http

def StrictField (line name value : Bytes) : Prop :=
  isToken name = true ∧
  (∃ l r, line = name ++ [58] ++ l ++ value ++ r ∧ l.all isOWS = true ∧ r.all isOWS = true) ∧
  value.any valueForbidden = false ∧
  (∀ b, value.head? = some b → isOWS b = false) ∧
  (∀ b, value.getLast? = some b → isOWS b = false)

/-- `hs` is the strict reading of the header section `lines` (which ends at its first empty line) -/
def FieldsOf : List Bytes → List (Bytes × Bytes) → Prop
  | [], hs => hs = []
  | line :: rest, hs =>
    if line = [] then hs = []
    else ∃ k v hs', hs = (k, v) :: hs' ∧ StrictField line k v ∧ FieldsOf rest hs'

/-- no singleton header name (RFC 9110 table, from the source) occurs twice -/
def NoSingletonDup (hs : List (Bytes × Bytes)) : Prop :=
  ∀ n, isSingleton n = true → (hs.filter (fun kv => lower kv.1 == n)).length ≤ 1

def StrictRequestLine (line method target : Bytes) (vmaj vmin : Nat) : Prop :=
  ∃ m v, line = m ++ [32] ++ target ++ [32] ++ v ∧ isToken m = true ∧ method = upper m ∧
    target.any targetForbidden = false ∧ parseVersion v = some (vmaj, vmin)

end Aio.Http
