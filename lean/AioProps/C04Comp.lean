import AioProps.C04
/-!
# C04: chunked framing with compression enabled

The compressor itself is not modelled: each `write`/`write_eof` op carries what the real
compressor returned for that call (`cz`, `flush`) as an oracle column.  The theorem is about the
*framing*: whatever the compressor returns, the chunked body on the wire decodes (strict RFC 9112
reference decoder) to exactly the concatenation of the compressor's outputs, in order — chunk
sizes and chunk contents never disagree, nothing is emitted outside a chunk, and the message ends
with exactly one last-chunk.
-/
namespace Aio.C04
open Aio

structure CompChunkedReady (w : W) : Prop where
  chunked : w.chunked = true
  comp : w.compress = true
  nolen : w.length = none
  isopen : w.closing = false
  noeof : w.eof = false
  hdr : (w.headersBuf = none ∧ w.headersWritten = true) ∨
        (∃ hb, w.headersBuf = some hb ∧ hb ≠ [] ∧ w.headersWritten = false)

theorem step_write_cc (w : W) (hw : CompChunkedReady w) (d cz : Bytes) :
    (step w (.write d cz)).2 = none ∧ CompChunkedReady (step w (.write d cz)).1 ∧
    flushed (step w (.write d cz)).1 = flushed w ++ frameOf cz := by
  obtain ⟨h1, h2, h3, h4, h5, h6⟩ := hw
  rcases w with ⟨length, chunked, eof, hbuf, hwr, compress, closing, out⟩
  simp only at h1 h2 h3 h4 h5 h6
  subst h1 h2 h3 h4 h5
  rcases h6 with ⟨hb, hwt⟩ | ⟨hb, hbe, hne, hwf⟩
  · subst hb hwt
    by_cases hd : cz = []
    · subst hd
      simp [step, doWrite, pendingHeaders, flushed, frameOf]
      exact ⟨rfl, rfl, rfl, rfl, rfl, Or.inl ⟨rfl, rfl⟩⟩
    · have hde : cz.isEmpty = false := by cases cz <;> simp_all
      simp [step, doWrite, pendingHeaders, flushed, frameOf, emit, hde]
      exact ⟨rfl, rfl, rfl, rfl, rfl, Or.inl ⟨rfl, rfl⟩⟩
  · subst hbe hwf
    have hbe : hb.isEmpty = false := by cases hb <;> simp_all
    by_cases hd : cz = []
    · subst hd
      simp [step, doWrite, pendingHeaders, flushed, frameOf, hbe]
      exact ⟨rfl, rfl, rfl, rfl, rfl, Or.inr ⟨hb, rfl, hne, rfl⟩⟩
    · have hde : cz.isEmpty = false := by cases cz <;> simp_all
      simp [step, doWrite, pendingHeaders, flushed, frameOf, sendHeadersWithPayload, emit, hbe, hde]
      exact ⟨rfl, rfl, rfl, rfl, rfl, Or.inl ⟨rfl, rfl⟩⟩

theorem step_send_cc (w : W) (hw : CompChunkedReady w) :
    (step w .sendHeaders).2 = none ∧ CompChunkedReady (step w .sendHeaders).1 ∧
    flushed (step w .sendHeaders).1 = flushed w := by
  obtain ⟨h1, h2, h3, h4, h5, h6⟩ := hw
  rcases w with ⟨length, chunked, eof, hbuf, hwr, compress, closing, out⟩
  simp only at h1 h2 h3 h4 h5 h6
  subst h1 h2 h3 h4 h5
  rcases h6 with ⟨hb, hwt⟩ | ⟨hb, hbe, hne, hwf⟩
  · subst hb hwt
    simp [step, pendingHeaders, flushed]
    exact ⟨rfl, rfl, rfl, rfl, rfl, Or.inl ⟨rfl, rfl⟩⟩
  · subst hbe hwf
    have hbe : hb.isEmpty = false := by cases hb <;> simp_all
    simp [step, pendingHeaders, flushed, emit, hbe]
    exact ⟨rfl, rfl, rfl, rfl, rfl, Or.inl ⟨rfl, rfl⟩⟩

/-- what `write_eof(d)` puts into its single chunk: the compressor's output for `d` (nothing
when `d` is empty) followed by the flush output -/
def eofBody (d cz fl : Bytes) : Bytes := (if d.isEmpty then [] else cz) ++ fl

theorem step_writeEof_cc (w : W) (hw : CompChunkedReady w) (d cz fl : Bytes) (hne : eofBody d cz fl ≠ []) :
    (step w (.writeEof d cz fl)).2 = none ∧ (step w (.writeEof d cz fl)).1.eof = true ∧
    (step w (.writeEof d cz fl)).1.out = flushed w ++ chunkFrame (eofBody d cz fl) ++ lastChunk := by
  obtain ⟨h1, h2, h3, h4, h5, h6⟩ := hw
  rcases w with ⟨length, chunked, eof, hbuf, hwr, compress, closing, out⟩
  simp only at h1 h2 h3 h4 h5 h6
  subst h1 h2 h3 h4 h5
  by_cases hd : d = []
  · subst hd
    have hfl : fl ≠ [] := by simpa [eofBody] using hne
    have hfle : fl.isEmpty = false := by cases fl <;> simp_all
    rcases h6 with ⟨hb, hwt⟩ | ⟨hb, hbe, hne', hwf⟩
    · subst hb hwt
      simp [step, doWriteEof, pendingHeaders, flushed, emit, eofBody, chunkFrame, hfl, hfle]
    · subst hbe hwf
      have hbe : hb.isEmpty = false := by cases hb <;> simp_all
      simp [step, doWriteEof, pendingHeaders, flushed, emit, eofBody, chunkFrame, hfl, hfle, hbe]
  · have hde : d.isEmpty = false := by cases d <;> simp_all
    have hb2 : cz ++ fl ≠ [] := by simpa [eofBody, hde] using hne
    have hb3 : (cz ++ fl).isEmpty = false := by cases h : cz ++ fl <;> simp_all
    have hb4 : ¬ (cz = [] ∧ fl = []) := by
      intro h; apply hb2; simp [h.1, h.2]
    rcases h6 with ⟨hb, hwt⟩ | ⟨hb, hbe, hne', hwf⟩
    · subst hb hwt
      simp [step, doWriteEof, pendingHeaders, flushed, emit, eofBody, chunkFrame, hde, hd, hb4]
    · subst hbe hwf
      have hbe : hb.isEmpty = false := by cases hb <;> simp_all
      simp [step, doWriteEof, pendingHeaders, flushed, emit, eofBody, chunkFrame, hde, hd, hb4, hbe]

/-- `write(d)` (compressor returned `cz`) / `send_headers()` -/
inductive CBodyOp where
  | write (d cz : Bytes)
  | send

def CBodyOp.toOp : CBodyOp → Op
  | .write d cz => .write d cz
  | .send => .sendHeaders

/-- what the compressor returned for the op -/
def CBodyOp.out : CBodyOp → Bytes
  | .write _ cz => cz
  | .send => []

theorem run_append (w : W) (a b : List Op) :
    run w (a ++ b) = ((run (run w a).1 b).1, (run w a).2 ++ (run (run w a).1 b).2) := by
  induction a generalizing w with
  | nil => simp [run]
  | cons x xs ih => simp [run, ih]

theorem run_body_cc (w : W) (hw : CompChunkedReady w) (ops : List CBodyOp) :
    let r := run w (ops.map CBodyOp.toOp)
    CompChunkedReady r.1 ∧ (∀ e ∈ r.2, e = none) ∧
    flushed r.1 = flushed w ++ encodeChunks (ops.map CBodyOp.out) := by
  induction ops generalizing w with
  | nil => simp [run, encodeChunks]; exact hw
  | cons op ops ih =>
    cases op with
    | write d cz =>
      obtain ⟨h1, h2, h3⟩ := step_write_cc w hw d cz
      obtain ⟨i1, i2, i3⟩ := ih _ h2
      simp only [List.map_cons, CBodyOp.toOp, run]
      refine ⟨i1, ?_, ?_⟩
      · intro e he
        rcases List.mem_cons.mp he with he | he
        · rw [he]; exact h1
        · exact i2 e he
      · rw [i3, h3]; simp [encodeChunks, CBodyOp.out]
    | send =>
      obtain ⟨h1, h2, h3⟩ := step_send_cc w hw
      obtain ⟨i1, i2, i3⟩ := ih _ h2
      simp only [List.map_cons, CBodyOp.toOp, run]
      refine ⟨i1, ?_, ?_⟩
      · intro e he
        rcases List.mem_cons.mp he with he | he
        · rw [he]; exact h1
        · exact i2 e he
      · rw [i3, h3]; simp [encodeChunks, CBodyOp.out, frameOf]

/-- **Chunked framing is truthful under compression.** For a writer in chunked mode with
compression enabled and no declared length, and any program of `write`/`send_headers` calls ended
by `write_eof(d)` — whatever the compressor returned for each call, provided the final call has
something to send (the code asserts that): no call fails, the message is complete, and the wire
carries the header block and then a body that the strict reference decoder maps to exactly the
concatenation of the compressor's outputs, in order, with nothing left over. -/
theorem compressed_chunked_roundtrip (w : W) (hw : CompChunkedReady w) (ops : List CBodyOp) (d cz fl : Bytes)
    (hne : eofBody d cz fl ≠ []) :
    let r := run w (ops.map CBodyOp.toOp ++ [.writeEof d cz fl])
    ∃ body, r.1.out = flushed w ++ body ∧ r.1.eof = true ∧ (∀ e ∈ r.2, e = none) ∧
      decodeChunked (body.length + 1) body = some ((ops.map CBodyOp.out).flatten ++ eofBody d cz fl, []) := by
  obtain ⟨h1, h2, h3⟩ := run_body_cc w hw ops
  simp only [run_append]
  obtain ⟨e1, e2, e3⟩ := step_writeEof_cc _ h1 d cz fl hne
  refine ⟨encodeChunks (ops.map CBodyOp.out ++ [eofBody d cz fl]) ++ lastChunk, ?_, ?_, ?_, ?_⟩
  · have hfe : frameOf (eofBody d cz fl) = chunkFrame (eofBody d cz fl) := by
      have : (eofBody d cz fl).isEmpty = false := by cases h : eofBody d cz fl <;> simp_all
      simp [frameOf, this]
    simp [run, e3, h3, encodeChunks, hfe]
  · simpa [run] using e2
  · intro e he
    rcases List.mem_append.mp he with he | he
    · exact h2 e he
    · simp [run] at he; rw [he]; exact e1
  · have := decode_encodeChunks (ops.map CBodyOp.out ++ [eofBody d cz fl]) []
    simpa using this

end Aio.C04
