import AioProps.C05
#print axioms Aio.C05.conn_inv
#print axioms Aio.C05.no_orphan_waiter
#print axioms Aio.C05.caps_agree
#print axioms Aio.C05.queue_cap_sections_partial
#print axioms Aio.C05.qinv_bound
#print axioms Aio.C05.second_header_block_inside_stream
#print axioms Aio.C05.close_delimited_body_then_next_response
#print axioms Aio.C05.start_dies_on_lazy_url_error
#print axioms Aio.C05.declined_upgrade_tail_stuck
