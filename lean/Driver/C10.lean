import Driver.Http
/-! Driver commands of property C10: the shared HTTP parser model. -/
namespace Aio.Driver.C10
def handle : List String → String := Aio.Driver.Http.handle
end Aio.Driver.C10
