import AioModel.Wire
import AioModel.C15
import AioModel.C15Static
/-! Driver commands of property C15 (see harness/c15.py for the line formats). -/
namespace Aio.Driver.C15
open Aio Aio.Wire Aio.C15

def parseOptStr (s : String) : Option (Option Str) :=
  if s == "none" then some none else (parseStr s).map some

def parseInt? (s : String) : Option Int := s.toInt?

def parseOptInt (s : String) : Option (Option Int) :=
  if s == "none" then some none else (parseInt? s).map some

def showOptInt : Option Int → String
  | none => "none"
  | some i => toString i

/-- `none` | `[]` | `w~<str>|s~<str>|…` -/
def parseTags (s : String) : Option (Option (List ETag)) :=
  if s == "none" then some none
  else if s == "[]" then some (some [])
  else
    ((s.splitOn "|").mapM (fun (e : String) =>
      match e.splitOn "~" with
      | ["w", v] => (parseStr v).map (fun v => ({ weak := true, value := v } : ETag))
      | ["s", v] => (parseStr v).map (fun v => ({ weak := false, value := v } : ETag))
      | _ => none)).map some

def showCond : Cond → String
  | .precondFailed => "412"
  | .notModified => "304"
  | .send => "send"

def showCR : CRange → String
  | .absent => "-"
  | .unsat n => s!"*/{n}"
  | .range f l n => s!"{f}-{l}/{n}"

def parseCondHdrs (im inm um ms ir : String) : Option CondHdrs := do
  let im ← parseTags im; let inm ← parseTags inm
  let um ← parseOptInt um; let ms ← parseOptInt ms; let ir ← parseOptInt ir
  pure { ifMatch := im, ifNoneMatch := inm, unmodSince := um, modSince := ms, ifRange := ir }

def parsePath (s : String) : Option Path :=
  if s == "/" then some [] else (s.splitOn "/").mapM parseStr

def showPath (p : Path) : String :=
  if p.isEmpty then "/" else "/".intercalate (p.map showStr)

def parseNode (s : String) : Option Node :=
  match s.toList with
  | ['d'] => some .dir
  | ['o'] => some .other
  | 'f' :: r => (String.ofList r).toNat?.map .file
  | 'l' :: r => (parseStr (String.ofList r)).map .link
  | _ => none

def parseFs (s : String) : Option (List (Path × Node)) :=
  if s == "-" then some [] else
  (s.splitOn ";").mapM (fun (e : String) =>
    match e.splitOn "=" with
    | [p, n] => do pure ((← parsePath p), (← parseNode n))
    | _ => none)

def showOut : Out → String
  | .notFound => "404"
  | .forbidden => "403"
  | .serverError => "500"
  | .listing p => "listing " ++ showPath p
  | .file p id enc => s!"file {showPath p} {id} " ++ (match enc with | some e => showStr e | none => "-")

def FUEL : Nat := 200

def handle : List String → String
  | ["range", h] =>
    match parseOptStr h with
    | some h =>
      (match httpRange h with
       | .ok (a, b) => s!"slice {showOptInt a} {showOptInt b}"
       | .error _ => "err")
    | none => "bad-op"
  | ["spec", h, size] =>
    match parseStr h, size.toNat? with
    | some h, some size =>
      (match parseSpec h with
       | none => "invalid"
       | some sp => match rfcSlice sp size with
         | none => "unsat"
         | some (f, l) => s!"slice {f} {l}")
    | _, _ => "bad-op"
  | ["cond", cur, mt, im, inm, um, ms] =>
    match parseStr cur, mt.toNat?, parseCondHdrs im inm um ms "none" with
    | some cur, some mt, some h => showCond (makeResponse cur mt h)
    | _, _, _ => "bad-op"
  | ["file", cs, head, cur, mt, im, inm, um, ms, ir, rng, content] =>
    match cs.toNat?, parseStr cur, mt.toNat?, parseCondHdrs im inm um ms ir, parseOptStr rng, parseHex content with
    | some cs, some cur, some mt, some h, some rng, some content =>
      let r := fileResponse cs (parseBool head) cur mt h rng content
      s!"{r.status} {showCR r.contentRange} {showOptInt r.contentLength} {showHex r.body}"
    | _, _, _, _, _, _ => "bad-op"
  | ["race", cs, head, cur, mt, size, im, inm, um, ms, ir, rng, atOpen] =>
    let ao : Option (Option (Bytes × Nat)) :=
      if atOpen == "none" then some none
      else match atOpen.splitOn ":" with
        | [m, c] => (do let m ← m.toNat?; let c ← parseHex c; pure (some (c, m)))
        | _ => none
    match cs.toNat?, parseStr cur, mt.toNat?, size.toNat?, parseCondHdrs im inm um ms ir, parseOptStr rng, ao with
    | some cs, some cur, some mt, some size, some h, some rng, some ao =>
      let r := fileResponseRace Gen.C15.fstatAlwaysAdopted cs (parseBool head) cur mt size h rng ao
      s!"{r.status} {showCR r.contentRange} {showOptInt r.contentLength} {showHex r.body}"
    | _, _, _, _, _, _, _ => "bad-op"
  | ["norm", s] =>
    match parseStr s with
    | some s => showStr (normpath s)
    | none => "bad-op"
  | ["unq", s] =>
    match parseStr s with
    | some s => showStr (unquotePathSafe s)
    | none => "bad-op"
  | ["route", pfx, path] =>
    match parseStr pfx, parseStr path with
    | some pfx, some path =>
      let idx := indexed (if pfx.isEmpty then [SLASH] else pfx) (path.length + 2) path
      (match route pfx path with
       | none => s!"none idx={showBool idx}"
       | some f => s!"some {showStr f} idx={showBool idx}")
    | _, _ => "bad-op"
  | ["serve", follow, showIdx, root, filename, ae, fs] =>
    match parsePath root, parseStr filename, parseStr ae, parseFs fs with
    | some root, some filename, some ae, some t =>
      showOut (serve (tableFs t) FUEL { root := root, follow := parseBool follow, showIndex := parseBool showIdx } filename ae)
    | _, _, _, _ => "bad-op"
  | ["get", follow, showIdx, pfx, root, path, ae, fs] =>
    match parseStr pfx, parsePath root, parseStr path, parseStr ae, parseFs fs with
    | some pfx, some root, some path, some ae, some t =>
      if !indexed (if pfx.isEmpty then [SLASH] else pfx) (path.length + 2) path then "nomatch"
      else match route pfx path with
        | none => "nomatch"
        | some filename =>
          showOut (serve (tableFs t) FUEL { root := root, follow := parseBool follow, showIndex := parseBool showIdx } filename ae)
    | _, _, _, _, _ => "bad-op"
  | _ => "bad-op"

end Aio.Driver.C15
