import AioModel.Wire
/-! Driver commands of property C15 (stub until the model exists). -/
namespace Aio.Driver.C15
open Aio Aio.Wire

def handle : List String → String
  | _ => "bad-op"

end Aio.Driver.C15
