import Driver.Http
/-! Driver commands of property C03: the shared HTTP parser model. -/
namespace Aio.Driver.C03
def handle : List String → String := Aio.Driver.Http.handle
end Aio.Driver.C03
