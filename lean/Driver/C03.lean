import AioModel.Wire
/-! Driver commands of property C03 (stub until the model exists). -/
namespace Aio.Driver.C03
open Aio Aio.Wire

def handle : List String → String
  | _ => "bad-op"

end Aio.Driver.C03
