import AioModel.Wire
import AioModel.C06Http
/-! Driver commands of property C06: `run <cfg> <op>…` replays a whole history on the model
and prints the observable state after every op. -/
namespace Aio.Driver.C06
open Aio Aio.Wire Aio.C06

def showExc : Exc → String
  | .http => "http" | .disconnected => "disconnected" | .os => "os" | .payload => "payload"
  | .connClosed => "connclosed" | .reset => "reset" | .timeout => "timeout" | .cancelled => "cancelled"
  | .dirty => "dirty" | .runtime => "runtime"

def showPhase : Phase → String
  | .waitHead => "wait" | .gotHead => "head" | .reading => "reading" | .done => "done" | .failed => "failed"

def showOpt : Option Nat → String
  | none => "-"
  | some n => toString n

def showExch (e : Exch) : String :=
  let used := if e.used.isEmpty then "-" else ".".intercalate (e.used.map toString)
  let res := match e.phase with
    | .done => "ok:" ++ showHex e.body
    | .failed => "err:" ++ (match e.err with | some x => showExc x | none => "?")
    | _ => "-"
  let head := if e.phase = .gotHead ∨ e.phase = .reading ∨ e.phase = .done then s!"{e.code}:{showHex e.mark}" else "-"
  s!"{showPhase e.phase},{showOpt e.conn},{used},{head},{res}"

def showConn (w : World httpParser) (cn : Conn httpParser) : String :=
  let reusable := cn.reusable w.now w.cfg.keepalive false
  -- an expired pooled connection is as good as closed (the cleanup timer closes it at some point)
  let connected := cn.connected && !(cn.pooled.isSome && !reusable)
  s!"{showBool connected}{showBool reusable}{showOpt cn.owner}"

def showWorld (w : World httpParser) : String :=
  "E[" ++ ";".intercalate (w.exchs.map showExch) ++ "] C[" ++ ";".intercalate (w.conns.map (showConn w)) ++ "]"

def allTag (j : Nat) (l : List Tag) : Bool := l.all (fun t => t == some j)

/-- ghost verdicts: exchanges whose delivered head/body has foreign provenance -/
def showGhost (w : World httpParser) : String :=
  let bad := (List.range w.exchs.length).filter (fun j =>
    match w.exchs[j]? with
    | some e => !(allTag j e.headProv && allTag j e.bodyProv)
    | none => false)
  "G[" ++ ",".intercalate (bad.map toString) ++ "]"

def parseKey (s : String) : Option Key :=
  match s.splitOn "." with
  | [a, b, c, d, e, f, g] => do
    pure { host := ← a.toNat?, port := ← b.toNat?, isSsl := parseBool c, ssl := ← d.toNat?,
           proxy := ← e.toNat?, proxyHdr := ← f.toNat?, sni := ← g.toNat? }
  | _ => none

def parseOp (s : String) : Option Op :=
  match s.splitOn "|" with
  | ["Q", k, skip, early] => do pure (.request (← parseKey k) (parseBool skip) (← parseHex early))
  | ["R", c, d] => do pure (.recv (← c.toNat?) (← parseHex d))
  | ["X", c, os] => do pure (.peerClose (← c.toNat?) (parseBool os))
  | ["F", c] => do pure (.beginClose (← c.toNat?))
  | ["H", c] => do pure (.hold (← c.toNat?))
  | ["D", j] => do pure (.read (← j.toNat?))
  | ["L", j] => do pure (.release (← j.toNat?))
  | ["C", j] => do pure (.close (← j.toNat?))
  | ["K", j] => do pure (.cancel (← j.toNat?))
  | ["A", d] => do pure (.advance (← d.toNat?))
  | _ => none

def parseCfg (s : String) : Option Cfg :=
  match s.splitOn "," with
  | [a, b, c, d] => do
    pure { forceClose := parseBool a, keepalive := ← b.toNat?, total := ← c.toNat?, fix := parseBool d }
  | _ => none

def runShow (w : World httpParser) : List Op → List String → World httpParser × List String
  | [], acc => (w, acc.reverse)
  | op :: ops, acc =>
    let w := w.step op
    runShow w ops (showWorld w :: acc)

def handle : List String → String
  | "run" :: cfg :: ops =>
    match parseCfg cfg, ops.mapM parseOp with
    | some cfg, some ops =>
      let (w, outs) := runShow { cfg := cfg } ops []
      " | ".intercalate (outs ++ [showGhost w])
    | _, _ => "bad-op"
  | _ => "bad-op"

end Aio.Driver.C06
