import AioModel.Wire
import AioModel.Http
/-! Shared driver commands for the HTTP parser model (used by C01, C03, C10). -/
namespace Aio.Driver.Http
open Aio Aio.Wire Aio.Http

def showMsg (m : Msg) (hasPayload : Bool) : String :=
  let hs := ",".intercalate (m.headers.map (fun kv => showHex kv.1 ++ "=" ++ showHex kv.2))
  s!"M({showHex m.method},{showHex m.path},{m.vmajor}.{m.vminor},{m.code},{showHex m.reason},{showBool m.shouldClose},{match m.compression with | some c => showHex c | none => "none"},{showBool m.upgrade},{showBool m.chunked},{showBool hasPayload};{hs})"

/-- canonical rendering: adjacent data events merged -/
def showEvs : List Ev → Bytes → List String
  | [], acc => if acc.isEmpty then [] else [s!"D({showHex acc})"]
  | .data bs :: t, acc => showEvs t (acc ++ bs)
  | e :: t, acc =>
    let pre := if acc.isEmpty then [] else [s!"D({showHex acc})"]
    let cur := match e with
      | .msg m hp => showMsg m hp
      | .beginChunk => "B"
      | .endChunk => "C"
      | .eof => "F"
      | .payloadErr e => s!"X({e.name})"
      | .data _ => ""
    pre ++ [cur] ++ showEvs t []

def parseCfg (s : String) : Option Cfg :=
  match s.splitOn "," with
  | [a, b, c, r, l, u, w, m] => do
    pure { maxLine := ← a.toNat?, maxField := ← b.toNat?, maxHeaders := ← c.toNat?,
           response := parseBool r, lax := parseBool l, readUntilEof := parseBool u,
           withBody := parseBool w, respMethod := ← parseHex m }
  | _ => none

/-- oracle table: comma separated `c:<hex>` / `n:<hex>` entries that yarl accepts -/
def parseOracle (s : String) : Option (List (Bool × Bytes)) :=
  if s == "-" then some [] else
  (s.splitOn ",").mapM (fun e =>
    match e.splitOn ":" with
    | ["c", h] => (parseHex h).map (fun b => (true, b))
    | ["n", h] => (parseHex h).map (fun b => (false, b))
    | _ => none)

def runFeeds (cfg : Cfg) (urlOk : Bool → Bytes → Bool) : St → List String → List String → List String
  | _, [], acc => acc.reverse
  | st, "EOF" :: _, acc =>
    let (evs, err) := feedEof cfg urlOk st
    let s := " ".intercalate (showEvs evs [])
    let s := match err with | some e => s ++ " !" ++ e.name | none => s
    (("eof: " ++ s) :: acc).reverse
  | st, seg :: rest, acc =>
    match parseHex seg with
    | none => ("bad-op" :: acc).reverse
    | some d =>
      let o := feed cfg urlOk st d
      match o.err with
      | some e =>
        -- the caller never sees the messages of a call that raised; only the calls made on
        -- the payload streams created meanwhile are observable
        let toks := (showEvs o.evs []).filterMap (fun t =>
          if t.startsWith "M(" then (if t.endsWith ",0;" || (t.splitOn ";").head!.endsWith ",0" then none else some "M?") else some t)
        ((" ".intercalate toks ++ " R=- U=? !" ++ e.name) :: acc).reverse
      | none =>
        let s := " ".intercalate (showEvs o.evs [])
        let s := s ++ s!" R={showHex o.rest} U={showBool o.st.upgraded}"
        runFeeds cfg urlOk o.st rest (s :: acc)

def handle : List String → String
  | "feed" :: cfg :: oracle :: segs =>
    match parseCfg cfg, parseOracle oracle with
    | some cfg, some tbl =>
      let urlOk := fun (c : Bool) (p : Bytes) => tbl.any (fun e => e.1 == c && e.2 == p)
      " | ".intercalate (runFeeds cfg urlOk {} segs [])
    | _, _ => "bad-op"
  | _ => "bad-op"

end Aio.Driver.Http
