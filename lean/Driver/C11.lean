import AioModel.Wire
import AioModel.C11
import AioModel.C11Conc
/-!
Driver commands of property C11.

`w <useMask> <compress> <notakeover> <limit> <op>…` — sequential writer program
  * `S|<opcode>|<msg hex>|<override>|<mask hex>|<z hex>` = `send_frame` (`z` = what the real
    compressor returned for this call, `-` if none; `mask` = the 4 random mask bytes, `-` if none)
  * `C|<code>|<msg hex>|<mask hex>` = `close(code, message)`;  `X` = the transport starts closing.
  Reply: one token per op (`ok|reset|pack`,`<_output_size>`,`<compressor used>`), then ` out=<hex>`.
`hdr <firstByte> <maskBit> <len>` — `frameHeader`.
`mask <key hex> <data hex>` — `maskBytes`.
`conc <label>…` — the lock/executor scheduling model (see AioModel/C11Conc.lean).
-/
namespace Aio.Driver.C11
open Aio Aio.Wire Aio.C11

def showWErr : Option WErr → String
  | none => "ok" | some .reset => "reset" | some .pack => "pack"

def showZCall : ZCall → String
  | .plain => "plain"
  | .shared w f e => s!"shared:{w}:{showBool f}:{showBool e}"
  | .fresh w f e => s!"fresh:{w}:{showBool f}:{showBool e}"

def runW (cfg : WCfg) : WS → List String → List String → Option (WS × List String)
  | w, [], acc => some (w, acc.reverse)
  | w, op :: ops, acc =>
    match op.splitOn "|" with
    | ["S", oc, m, ov, mk, z] =>
      match oc.toNat?, parseHex m, ov.toNat?, parseHex mk, parseHex z with
      | some oc, some m, some ov, some mk, some z =>
        let (w', e) := sendFrameZ cfg w m oc ov mk z
        let zc := if w.closing ∧ oc &&& 8 = 0 then "none" else showZCall (route cfg oc ov m.length)
        runW cfg w' ops (s!"{showWErr e},{w'.outputSize},{zc}" :: acc)
      | _, _, _, _, _ => none
    | ["C", code, m, mk] =>
      match code.toNat?, parseHex m, parseHex mk with
      | some code, some m, some mk =>
        let (w', e) := closeZ cfg w code m mk
        runW cfg w' ops (s!"{showWErr e},{w'.outputSize},close" :: acc)
      | _, _, _ => none
    | ["X"] => runW cfg { w with transportClosing := true } ops ("x" :: acc)
    | _ => none

namespace Conc
open Aio.C11.Conc

def parseKind : String → Option Kind
  | "p" => some .plain | "y" => some .sync | "e" => some .exec | _ => none

def parseLabel (s : String) : Option Label :=
  match s.splitOn ":" with
  | ["s", t, k] => do pure (.spawn (← t.toNat?) (← parseKind k))
  | ["c", t] => do pure (.cancel (← t.toNat?))
  | ["e"] => some .execDone
  | ["t"] => some .tick
  | _ => none

def showIds (l : List Nat) : String := if l.isEmpty then "-" else ".".intercalate (l.map toString)

def showS (s : S) : String :=
  s!"{showBool s.locked}/{s.waiters.length}/{match s.inExec with | some t => toString t | none => "-"}/{showIds s.wireAll}"

def runL : S → List Label → List String → S × List String
  | s, [], acc => (s, acc.reverse)
  | s, l :: ls, acc => let s' := step s l; runL s' ls (showS s' :: acc)

def handle (labels : List String) : String :=
  match labels.mapM parseLabel with
  | none => "bad-op"
  | some ls =>
    let (s, outs) := runL {} ls []
    " ".intercalate outs ++ s!" comp={showIds s.compLog} wire={showIds s.wire}"
end Conc

def handle : List String → String
  | "w" :: um :: cp :: nt :: lim :: ops =>
    match cp.toNat?, lim.toNat? with
    | some cp, some lim =>
      let cfg : WCfg := { useMask := parseBool um, compress := cp, notakeover := parseBool nt, limit := lim }
      match runW cfg {} ops [] with
      | some (w, outs) => " ".intercalate outs ++ s!" closing={showBool w.closing} out=" ++ showHex w.out
      | none => "bad-op"
    | _, _ => "bad-op"
  | ["hdr", fb, mb, n] =>
    match fb.toNat?, mb.toNat?, n.toNat? with
    | some fb, some mb, some n => showHex (frameHeader fb mb n)
    | _, _, _ => "bad-op"
  | ["mask", k, d] =>
    match parseHex k, parseHex d with
    | some k, some d => showHex (C12.maskBytes k d)
    | _, _ => "bad-op"
  | "conc" :: labels => Conc.handle labels
  | _ => "bad-op"

end Aio.Driver.C11
