import AioModel.Wire
/-! Driver commands of property C11 (stub until the model exists). -/
namespace Aio.Driver.C11
open Aio Aio.Wire

def handle : List String → String
  | _ => "bad-op"

end Aio.Driver.C11
