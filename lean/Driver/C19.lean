import AioModel.Wire
import AioModel.C19
/-! Driver commands of property C19. -/
namespace Aio.Driver.C19
open Aio Aio.Wire Aio.C19

def showErr : Err → String
  | .line => "E_LINE"
  | .badmsg => "E_BADMSG"
  | .value => "E_VALUE"
  | .assertion => "E_ASSERT"
  | .runtime => "E_RUNTIME"
  | .size => "E_SIZE"
  | .fuel => "E_FUEL"

def showHdrs (hs : List (Bytes × Bytes)) : String :=
  if hs.isEmpty then "~" else "&".intercalate (hs.map (fun kv => showHex kv.1 ++ "=" ++ showHex kv.2))

def showList (l : List Bytes) : String :=
  if l.isEmpty then "~" else ",".intercalate (l.map showHex)

def showEv : Ev → String
  | .body hs tag data => s!"B{showHdrs hs}:{tag}:{showList data}"
  | .nestedBegin hs => s!"N{showHdrs hs}("
  | .nestedEnd => ")"
  | .done => "END"
  | .err e => showErr e
  | .errAt e n => s!"{showErr e}@{n}"
  | .stuck => "STUCK"

def parseList (s : String) : Option (List Bytes) :=
  if s == "~" then some [] else (s.splitOn ",").mapM parseHex

def parseHdrs (s : String) : Option (List (Bytes × Bytes)) :=
  if s == "~" then some [] else
  (s.splitOn "&").mapM (fun kv =>
    match kv.splitOn "=" with
    | [k, v] => do pure ((← parseHex k), (← parseHex v))
    | _ => none)

def parseAction (s : String) : Option Action :=
  match s.toList with
  | ['R'] => some .read
  | ['X'] => some .release
  | ['S'] => some .skip
  | ['L'] => some .readline
  | 'C' :: r => do
    let ns ← ((String.ofList r).splitOn ".").mapM (·.toNat?)
    if ns.isEmpty then none else pure (.chunks ns)
  | 'P' :: r =>
    match (String.ofList r).splitOn "." with
    | [k, n] => do pure (.partialRead (← k.toNat?) (← n.toNat?))
    | _ => none
  | _ => none

def parseWPart (s : String) : Option WPart :=
  match s.splitOn "|" with
  | [h, c, z1, zf, q] => do
    pure { headers := (← parseHdrs h), content := (← parseHex c), cz1 := (← parseHex z1),
           czf := (← parseHex zf), qps := (← parseList q) }
  | _ => none

/-- a part as the writer holds it *now* (headers after `append_payload` and any later change) -/
def parseAppended (s : String) : Option Appended :=
  match s.splitOn "|" with
  | [h, c, comp, te, z1, zf, q] => do
    let te ← (match te with | "n" => some TE.none | "b" => some TE.base64 | "q" => some TE.qp | _ => none)
    pure { headers := (← parseHdrs h), content := (← parseHex c), compressed := parseBool comp, te := te,
           cz1 := (← parseHex z1), czf := (← parseHex zf), qps := (← parseList q) }
  | _ => none

def showWErr : WErr → String
  | .runtime => "err-runtime"
  | .assertion => "err-assertion"
  | .value => "err-value"
  | .boundary => "err-boundary"

def handle : List String → String
  | ["rd", b, form, maxField, maxHeaders, maxSize, eofWithLast, limit, prefed, segs, descend, script] =>
    match parseHex b, maxField.toNat?, maxHeaders.toNat?, maxSize.toNat?, limit.toNat?, prefed.toNat?,
          parseList segs, (script.splitOn ",").mapM parseAction with
    | some b, some mf, some mh, some ms, some lim, some k, some segs, some script =>
      let segs := segs.filter (fun x => !x.isEmpty)
      let ewl := parseBool eofWithLast
      let s : Stream := { buf := (segs.take k).flatten, pending := segs.drop k,
                          eof := ewl && k ≥ segs.length, eofWithLast := ewl, low := lim, high := 2 * lim }
      let total := segs.flatten.length
      let cfg : Cfg := { maxField := mf, maxHeaders := mh, maxSize := ms }
      let f : Frame := { boundary := [45, 45] ++ b, isForm := parseBool form }
      let evs := drive cfg script (parseBool descend) (total + 100) [(f, false)] s 0 []
      " ".intercalate (evs.map showEv)
    | _, _, _, _, _, _, _, _ => "bad-op"
  | "wr" :: b :: form :: parts =>
    match parseHex b, parts.mapM parseWPart with
    | some b, some ps =>
      if !boundaryOk b then showWErr .boundary else
      match appendAll (parseBool form) 0 ps with
      | .error e => showWErr e
      | .ok as =>
        match writeParts (parseBool form) b as with
        | .error e => showWErr e
        | .ok w => s!"ok {showHex w} size={showOptNat (sizeOf b as)} hdrs={"/".intercalate (as.map (fun a => showHdrs a.headers))}"
    | _, _ => "bad-op"
  | "wz" :: b :: form :: parts =>
    -- size and bytes written as pure functions of the writer's current parts
    match parseHex b, parts.mapM parseAppended with
    | some b, some as =>
      match writeParts (parseBool form) b as with
      | .error e => showWErr e
      | .ok w => s!"ok {showHex w} size={showOptNat (sizeOf b as)}"
    | _, _ => "bad-op"
  | ["io", buf, k, bytesIO, ops] =>
    match parseHex buf, k.toNat? with
    | some buf, some k =>
      let ops := ops.toList.filterMap (fun c => if c == 'S' then some IOOp.size else if c == 'W' then some IOOp.write else none)
      let outs := (IOPayload.create buf k (parseBool bytesIO)).run ops
      ",".intercalate (outs.map (fun o => match o with | .size n => s!"s{n}" | .data b => "w" ++ showHex b))
    | _, _ => "bad-op"
  | ["al", chunk, size, atEnd] =>
    match parseHex chunk, size.toNat? with
    | some c, some n => let r := alignB64 c n (parseBool atEnd); s!"{showHex r.1} {showHex r.2}"
    | _, _ => "bad-op"
  | ["b64", d] =>
    match parseHex d with
    | some d => showHex (b64enc d)
    | none => "bad-op"
  | ["win", sub, prev, chunk, first] =>
    match parseHex sub, parseHex prev, parseHex chunk with
    | some sub, some prev, some chunk =>
      let r := windowStep sub prev chunk (parseBool first)
      s!"{showHex r.1} {showHex r.2.1} {match r.2.2 with | some b => showHex b | none => "none"}"
    | _, _, _ => "bad-op"
  | ["mime", v] =>
    match parseHex v with
    | some v => let m := parseMimetype v; s!"{showHex m.type} {showHex m.subtype} {showHdrs m.params}"
    | none => "bad-op"
  | "hdr" :: lines =>
    match lines.mapM parseHex with
    | some ls =>
      match parseHeaders (ls ++ [[]]) [] with
      | .ok hs => "ok " ++ showHdrs hs
      | .error e => showErr e
    | none => "bad-op"
  | _ => "bad-op"

end Aio.Driver.C19
