import AioModel.Wire
/-! Driver commands of property C19 (stub until the model exists). -/
namespace Aio.Driver.C19
open Aio Aio.Wire

def handle : List String → String
  | _ => "bad-op"

end Aio.Driver.C19
