import AioModel.Wire
import AioModel.C04
namespace Aio.Driver.C04
open Aio Aio.Wire Aio.C04

def showHErr : HErr → String
  | .forbidden => "forbidden"
  | .encode => "encode"

def showWErr : Option WErr → String
  | none => "ok"
  | some (.header e) => "header-" ++ showHErr e
  | some .reset => "reset"
  | some .assertion => "assertion"

def pairs : List String → Option (List (Str × Str))
  | [] => some []
  | k :: v :: t => do
    let k ← parseStr k; let v ← parseStr v; let r ← pairs t
    pure ((k, v) :: r)
  | _ => none

def parseOp (s : String) : Option Op :=
  match s.splitOn "|" with
  | "H" :: st :: kvs => do
    let st ← parseStr st; let hs ← pairs kvs
    pure (.writeHeaders st hs)
  | ["S"] => some .sendHeaders
  | ["W", d, cz] => do pure (.write (← parseHex d) (← parseHex cz))
  | ["E", d, cz, fl] => do pure (.writeEof (← parseHex d) (← parseHex cz) (← parseHex fl))
  | ["F"] => some .setEof
  | ["C"] => some .enableChunking
  | ["Z"] => some .enableCompression
  | ["L", "none"] => some (.setLength none)
  | ["L", n] => do pure (.setLength (some (← n.toNat?)))
  | ["X"] => some .closeTransport
  | _ => none

def handle : List String → String
  | "ser" :: st :: kvs =>
    match parseStr st, pairs kvs with
    | some st, some hs =>
      match serialize st hs with
      | .ok bs => "ok " ++ showHex bs
      | .error e => "err " ++ showHErr e
    | _, _ => "bad-op"
  | "run" :: ops =>
    match ops.mapM parseOp with
    | none => "bad-op"
    | some ops =>
      let (w, es) := run {} ops
      s!"out={showHex w.out} errs={",".intercalate (es.map showWErr)} eof={showBool w.eof} length={showOptNat w.length}"
  | ["dechunk", h] =>
    match parseHex h with
    | some bs =>
      match decodeChunked (bs.length + 1) bs with
      | some (d, r) => s!"ok {showHex d} {showHex r}"
      | none => "none"
    | none => "bad-op"
  | _ => "bad-op"

end Aio.Driver.C04
