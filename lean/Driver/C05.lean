import AioModel.Wire
import AioModel.C05
/-!
Driver commands of property C05.

`run <keepaliveMs>,<lingerMs>,<readBufsize>,<canPause 0|1> <progs> <oracle> <event>…` → observations after every event,
joined by ` | `.
* progs: `;`-separated handler programs (`-` = none), ops separated by `.`:
  `S<ms>` `R` `P` (prepare+write) `Q` (prepare only) `W` and a final `ok|fc|E403|Ex|Et|Ec|none`
* oracle: `;`-separated parser calls (`-` = none), tokens separated by `,`:
  `p<idx>.<chunks>.<eof><exc>`, `m<has><close><v11><vge11><nostream><expect><eof><exc><badurl>.<chunks>`,
  `u<0|1>`, `t<tailLen>`, `!<lost>` (raised), `_` (call without any token)
* events: `d<n>` data_received(n bytes), `x` peer disconnect, `k` one callback, `s` settle,
  `t<ms>` let `ms` of virtual time pass, `j<ms>` one `fire` label: jump to the next timer (at most `ms`) and make the due timers ready without running them
-/
namespace Aio.Driver.C05
open Aio Aio.Wire Aio.C05

def bit (c : Char) : Option Bool := if c == '1' then some true else if c == '0' then some false else none

def parseOp (t : String) : Option HOp :=
  match t with
  | "R" => some .read
  | "P" => some (.prepare true)
  | "Q" => some (.prepare false)
  | "W" => some .write
  | "ok" => some (.fin .ok)
  | "fc" => some (.fin .fc)
  | "E403" => some (.fin .e403)
  | "Ex" => some (.fin .ex)
  | "Et" => some (.fin .et)
  | "Ec" => some (.fin .ec)
  | "none" => some (.fin .none)
  | _ => if t.startsWith "S" then (t.drop 1).toNat?.map .sleep else none

def parseProgs (s : String) : Option (List Prog) :=
  if s == "-" then some [] else
  (s.splitOn ";").mapM (fun p => (p.splitOn ".").mapM parseOp)

def parseTok (o : POut) (t : String) : Option POut :=
  match t.toList with
  | 'p' :: rest =>
    match (String.ofList rest).splitOn "." with
    | [i, c, fl] =>
      match fl.toList with
      | [e, x] => do
        let i ← i.toNat?; let c ← c.toNat?; let e ← bit e; let x ← bit x
        pure { o with olds := o.olds ++ [{ idx := i, chunks := c, eof := e, exc := x }] }
      | _ => none
    | _ => none
  | 'm' :: rest =>
    match (String.ofList rest).splitOn "." with
    | [fl, c] =>
      match fl.toList with
      | [a, b, v, w, n, ex, e, x, bu] => do
        let a ← bit a; let b ← bit b; let v ← bit v; let w ← bit w; let n ← bit n
        let ex ← (String.ofList [ex]).toNat?; let e ← bit e; let x ← bit x; let bu ← bit bu; let c ← c.toNat?
        pure { o with msgs := o.msgs ++ [{ hasPayload := a, shouldClose := b, v11 := v, vge11 := w, noStream := n,
                                             expect := ex, chunks := c, eof := e, exc := x, badUrl := bu }] }
      | _ => none
    | _ => none
  | ['u', b] => (bit b).map (fun b => { o with upgraded := b })
  | 't' :: rest => (String.ofList rest).toNat?.map (fun n => { o with tailLen := n })
  | '!' :: rest => (String.ofList rest).toNat?.map (fun n => { o with raised := true, lost := n })
  | ['_'] => some o
  | _ => none

def parseOracle (s : String) : Option (List POut) :=
  if s == "-" then some [] else
  (s.splitOn ";").mapM (fun c => (c.splitOn ",").foldlM parseTok {})

def settle : Nat → St → St
  | 0, s => s
  | fuel + 1, s => if s.ready.isEmpty then s else settle fuel (step s .tick)

def advance : Nat → St → Nat → St
  | 0, s, _ => s
  | fuel + 1, s, target =>
    let s := settle 100000 s
    match earliest s with
    | some w => if w ≤ target then advance fuel (step s (.fire target)) target
                else settle 100000 (step s (.fire target))
    | none => settle 100000 (step s (.fire target))

def runEvents : St → List String → List String → Option (List String)
  | _, [], acc => some acc.reverse
  | s, e :: es, acc =>
    let s' : Option St :=
      match e.toList with
      | ['x'] => some (step s .lost)
      | ['k'] => some (step s .tick)
      | ['s'] => some (settle 100000 s)
      | 'd' :: n => (String.ofList n).toNat?.map (fun n => step s (.data n))
      | 't' :: n => (String.ofList n).toNat?.map (fun n => advance 100000 s (s.now + n))
      | 'j' :: n => (String.ofList n).toNat?.map (fun n => step s (.fire (s.now + n)))
      | _ => none
    match s' with
    | none => none
    | some s' => runEvents s' es (obs s' :: acc)

def handle : List String → String
  | "run" :: cfg :: progs :: oracle :: events =>
    match cfg.splitOn ",", parseProgs progs, parseOracle oracle with
    | [ka, li, rb, cp], some progs, some oracle =>
      match ka.toNat?, li.toNat?, rb.toNat? with
      | some ka, some li, some rb =>
        let s := init { keepaliveMs := ka, lingerMs := li, readBuf := rb, canPause := cp == "1" } progs oracle
        match runEvents s events [] with
        | some outs => " | ".intercalate outs
        | none => "bad-op"
      | _, _, _ => "bad-op"
    | _, _, _ => "bad-op"
  | _ => "bad-op"

end Aio.Driver.C05
