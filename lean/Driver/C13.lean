import AioModel.Wire
import AioModel.C13
/-!
Driver commands of property C13.

`run <side> <autoclose> <autoping> <heartbeat|none> <recvTimeout|none> <closeTimeout> <limit> <fixed> <label>…`
→ the state projection after set-up and after every label, joined by `;`.
Labels: `tick`, `call.<t>.recv`, `call.<t>.close.<code>`, `call.<t>.send.<n>`, `call.<t>.ping`,
`cancel.<t>`, `peer.text`, `peer.ping`, `peer.pong`, `peer.close.<code>`, `peer.bad`, `drop.<0|1>`,
`pausew`, `resumew`, `adv.<ms>`.
-/
namespace Aio.Driver.C13
open Aio Aio.Wire Aio.C13

def parseOptNat (s : String) : Option (Option Nat) :=
  if s == "none" then some none else s.toNat?.map some

def parseLabel (s : String) : Option Label :=
  match s.splitOn "." with
  | ["tick"] => some .tick
  | ["pausew"] => some .pauseW
  | ["resumew"] => some .resumeW
  | ["call", t, "recv"] => do pure (.call (← t.toNat?) .recv)
  | ["call", t, "close", c] => do pure (.call (← t.toNat?) (.close (← c.toNat?)))
  | ["call", t, "send", n] => do pure (.call (← t.toNat?) (.send (← n.toNat?)))
  | ["call", t, "ping"] => do pure (.call (← t.toNat?) .ping)
  | ["cancel", t] => do pure (.cancel (← t.toNat?))
  | ["peer", "text"] => some (.peer .text)
  | ["peer", "ping"] => some (.peer .ping)
  | ["peer", "pong"] => some (.peer .pong)
  | ["peer", "close", c] => do pure (.peer (.close (← c.toNat?)))
  | ["peer", "bad"] => some (.peer .bad)
  | ["adv", d] => do pure (.adv (← d.toNat?))
  | ["drop", "0"] => some (.drop false)
  | ["drop", "1"] => some (.drop true)
  | _ => none

def showExc : Exc → String
  | .cancelled => "cancelled"
  | .timeout => "timeout"
  | .pongTimeout => "pongtimeout"
  | .reset => "reset"
  | .conn => "conn"
  | .eof => "eof"
  | .wserr _ => "wserr"
  | .assertion => "assert"
  | .runtime => "runtime"

def showMsg : Msg → String
  | .text => "TEXT"
  | .ping => "PING"
  | .pong => "PONG"
  | .close c => s!"CLOSE{c}"
  | .closing => "CLOSING"
  | .error => "ERROR"

def showTask (x : Task) : String :=
  match x.outcome, x.pc with
  | _, .start | _, .recvRead | _, .recvPong | _, .sendDrain | _, .closeDrain1 | _, .closeDrain2
  | _, .closeWait | _, .closeRead => "p"
  | none, .done => "-"
  | some (.recv (.msg m)), .done => "r:" ++ showMsg m
  | some (.recv .closed), .done => "r:CLOSED"
  | some (.closeRet b), .done => "c:" ++ showBool b
  | some .sent, .done => "s:ok"
  | some (.raised e), .done => "x:" ++ showExc e

def showFrame : Frame → String
  | .data => "T"
  | .ping => "P"
  | .pong => "O"
  | .close c => s!"C{c}"

def showFutRef : FutRef → String
  | .none => "-"
  | .pending _ => "p"
  | .done => "d"
  | .cancelled => "c"

def proj (s : St) : String :=
  let dw := match s.drain with | .none => "-" | .pending => "p" | .cancelled => "c"
  let rw := match s.rwaiter with
    | none => "-"
    | some t => if (getT s t).fut = FutSt.pending then "p" else "d"
  let fr := if s.frames.isEmpty then "-" else ",".intercalate (s.frames.map showFrame)
  let cc := match s.closeCode with | none => "-" | some c => toString c
  let ex := match s.exc with | none => "-" | some e => showExc e
  s!"now={s.now} c={showBool s.closed} g={showBool s.closing} cc={cc} w={showBool s.waiting} cw={showFutRef s.closeWait} ex={ex} wc={showBool s.wClosing} tc={showBool s.trClosing} tl={showBool s.lost} pw={showBool s.paused} dw={dw} fr={fr} os={s.outSize} buf={s.buf.length} eof={showBool s.eof} rw={rw} hb={showBool s.hbCb} pg={showBool s.pongCb} nr={showBool s.needReset} pt={showBool s.pingTask.isSome} rdy={s.ready.length} tm={s.timers.length} t={"|".intercalate ((s.tasks.take appTasks).map showTask)}"

def traceOf (s : St) (ls : List Label) : List String :=
  let (_, acc) := ls.foldl (fun (p : St × List String) l =>
    let s := step p.1 l
    (s, proj s :: p.2)) (s, [proj s])
  acc.reverse

def handle : List String → String
  | "run" :: side :: ac :: ap :: hb :: rt :: ct :: lim :: fx :: labs =>
    let side? : Option Side := if side == "server" then some .server else if side == "client" then some .client else none
    match side?, parseOptNat hb, parseOptNat rt, ct.toNat?, lim.toNat?, labs.mapM parseLabel with
    | some side, some hb, some rt, some ct, some lim, some ls =>
      let cfg : Cfg := { side := side, autoclose := parseBool ac, autoping := parseBool ap, heartbeat := hb,
                         recvTimeout := rt, closeTimeout := ct, limit := lim, fixed := parseBool fx }
      ";".intercalate (traceOf (init cfg) ls)
    | _, _, _, _, _, _ => "bad-op"
  | _ => "bad-op"

end Aio.Driver.C13
