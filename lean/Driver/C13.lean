import AioModel.Wire
/-! Driver commands of property C13 (stub until the model exists). -/
namespace Aio.Driver.C13
open Aio Aio.Wire

def handle : List String → String
  | _ => "bad-op"

end Aio.Driver.C13
