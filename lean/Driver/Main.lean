import AioModel.Wire
import Driver.C04
/-!
Line protocol: `<Cnn> <op> <arg>…` → one canonical line.  Each line is self-contained
(stateful models receive the whole operation sequence on one line), so the driver keeps no
state between lines.
-/
def dispatch (line : String) : String :=
  match (line.splitOn " ").filter (· ≠ "") with
  | "C04" :: rest => Aio.Driver.C04.handle rest
  | _ => "bad-op"

partial def loop (h : IO.FS.Stream) (out : IO.FS.Stream) : IO Unit := do
  let line ← h.getLine
  if line.isEmpty then return ()
  let l := line.trimAscii.toString
  out.putStrLn (dispatch l)
  loop h out

def main : IO Unit := do
  let out ← IO.getStdout
  loop (← IO.getStdin) out
  out.flush
