import AioModel.Wire
import Driver.C01
import Driver.C02
import Driver.C03
import Driver.C04
import Driver.C05
import Driver.C06
import Driver.C07
import Driver.C08
import Driver.C09
import Driver.C10
import Driver.C11
import Driver.C12
import Driver.C13
import Driver.C14
import Driver.C15
import Driver.C16
import Driver.C17
import Driver.C18
import Driver.C19
import Driver.C20
/-!
Line protocol: `<Cnn> <op> <arg>…` → one canonical line.  Each line is self-contained
(stateful models receive the whole operation sequence on one line), so the driver keeps no
state between lines.
-/
def dispatch (line : String) : String :=
  match (line.splitOn " ").filter (· ≠ "") with
  | "C01" :: rest => Aio.Driver.C01.handle rest
  | "C02" :: rest => Aio.Driver.C02.handle rest
  | "C03" :: rest => Aio.Driver.C03.handle rest
  | "C04" :: rest => Aio.Driver.C04.handle rest
  | "C05" :: rest => Aio.Driver.C05.handle rest
  | "C06" :: rest => Aio.Driver.C06.handle rest
  | "C07" :: rest => Aio.Driver.C07.handle rest
  | "C08" :: rest => Aio.Driver.C08.handle rest
  | "C09" :: rest => Aio.Driver.C09.handle rest
  | "C10" :: rest => Aio.Driver.C10.handle rest
  | "C11" :: rest => Aio.Driver.C11.handle rest
  | "C12" :: rest => Aio.Driver.C12.handle rest
  | "C13" :: rest => Aio.Driver.C13.handle rest
  | "C14" :: rest => Aio.Driver.C14.handle rest
  | "C15" :: rest => Aio.Driver.C15.handle rest
  | "C16" :: rest => Aio.Driver.C16.handle rest
  | "C17" :: rest => Aio.Driver.C17.handle rest
  | "C18" :: rest => Aio.Driver.C18.handle rest
  | "C19" :: rest => Aio.Driver.C19.handle rest
  | "C20" :: rest => Aio.Driver.C20.handle rest
  | _ => "bad-op"

partial def loop (h : IO.FS.Stream) (out : IO.FS.Stream) : IO Unit := do
  let line ← h.getLine
  if line.isEmpty then return ()
  let l := line.trimAscii.toString
  out.putStrLn (dispatch l)
  loop h out

def main : IO Unit := do
  let out ← IO.getStdout
  loop (← IO.getStdin) out
  out.flush
