import AioModel.Wire
/-! Driver commands of property C20 (stub until the model exists). -/
namespace Aio.Driver.C20
open Aio Aio.Wire

def handle : List String → String
  | _ => "bad-op"

end Aio.Driver.C20
