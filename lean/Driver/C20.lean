import AioModel.Wire
import AioModel.C20
import AioModel.C20Drain
/-!
Driver commands of property C20.

`life <entry> A <ctxs> <su> <sd> <cl> A …` — application table (row order = application id)
  entry  `r:<S|C>*` runner script (S = setup, C = cleanup) | `a:0` `_run_app` cancelled while
         serving | `a:1` `_run_app` whose site fails to start
  ctxs   `-` | comma list of two digits `<enter><exit>` (0 ok, 1 Exception, 2 CancelledError)
  slots  `-` | comma list of `h<id>.<f>` (user handler) / `s<j>` (sub-application j)
reply  `log=<events> res=<outcome;…> wf=<0|1>`
-/
namespace Aio.Driver.C20
open Aio Aio.Wire Aio.C20

def parseFail : Char → Option Fail
  | '0' => some .ok
  | '1' => some .exc
  | '2' => some .cancel
  | '3' => some .xcancel
  | _ => none

def parseCtx (s : String) : Option Ctx :=
  match s.toList with
  | [e, x] => do pure ⟨← parseFail e, ← parseFail x⟩
  | _ => none

def parseList (f : String → Option α) (s : String) : Option (List α) :=
  if s == "-" then some [] else (s.splitOn ",").mapM f

def parseSlot (s : String) : Option Slot :=
  match s.toList with
  | 'h' :: rest =>
    match (String.ofList rest).splitOn "." with
    | [id, f] =>
      match f.toList with
      | [c] => do pure (.h (← id.toNat?) (← parseFail c))
      | _ => none
    | _ => none
  | 's' :: rest => do pure (.sub (← (String.ofList rest).toNat?))
  | _ => none

def parseApps : List String → Option (List AppDef)
  | [] => some []
  | "A" :: c :: su :: sd :: cl :: rest => do
    let d : AppDef := ⟨← parseList parseCtx c, ← parseList parseSlot su, ← parseList parseSlot sd,
      ← parseList parseSlot cl⟩
    let r ← parseApps rest
    pure (d :: r)
  | _ => none

def showSig : Sig → String
  | .startup => "u"
  | .shutdown => "d"
  | .cleanup => "c"

def showEv : Ev → String
  | .enter a i => s!"n{a}.{i}"
  | .entered a i => s!"N{a}.{i}"
  | .exit a i => s!"x{a}.{i}"
  | .exitEnd a i => s!"X{a}.{i}"
  | .sig s id => s!"{showSig s}{id}"
  | .sigEnd s id => s!"{(showSig s).toUpper}{id}"

def showOrigin : Origin → String
  | .enter a i => s!"n{a}.{i}"
  | .exit a i => s!"x{a}.{i}"
  | .sig s id => s!"{showSig s}{id}"

def showErr : Err → String
  | .user o => "E:" ++ showOrigin o
  | .multi os => "M:" ++ "+".intercalate (os.map showOrigin)
  | .cancelled => "cancelled"
  | .site => "site"

def showRes : Option Err → String
  | none => "ok"
  | some e => showErr e

def showLog (l : List Ev) : String := if l.isEmpty then "-" else ",".intercalate (l.map showEv)

def parseScript (s : String) : Option (List ROp) :=
  s.toList.mapM (fun c => match c with
    | 'S' => some ROp.setup
    | 'C' => some ROp.cleanup
    | _ => none)

def life (entry : String) (apps : List String) : String :=
  match parseApps apps with
  | none => "bad-op"
  | some tbl =>
    let wf := showBool (wellFormed tbl)
    match entry.splitOn ":" with
    | ["r", sc] =>
      match parseScript sc with
      | none => "bad-op"
      | some ops =>
        let (log, res) := runRunner tbl {} ops
        s!"log={showLog log} res={";".intercalate (res.map showRes)} wf={wf}"
    | ["a", "0"] =>
      let (log, e) := runApp tbl false
      s!"log={showLog log} res={showErr e} wf={wf}"
    | ["a", "1"] =>
      let (log, e) := runApp tbl true
      s!"log={showLog log} res={showErr e} wf={wf}"
    | _ => "bad-op"

/-! `drain <T> <t0> <ds> C <script> C <script> …`; script `-` | comma list of `<t>:<label>`,
label `g<d>` | `f<d>` | `p<d>` | `a+b` (pipelined) | `P` | `B`.
reply `c0=<obs> c1=… ret=<t|never> open=<n|->`, obs `-` | comma list of `<kind>@<t>` -/
open Aio.C20.Drain in
def parseReq (s : String) : Option Req :=
  match s.toList with
  | 'g' :: d => do pure ⟨.get, ← (String.ofList d).toNat?, 0⟩
  | 'f' :: d => do pure ⟨.postFull, ← (String.ofList d).toNat?, 0⟩
  | 'p' :: d => do pure ⟨.postPart, ← (String.ofList d).toNat?, 0⟩
  | 'l' :: d => do pure ⟨.postLate, ← (String.ofList d).toNat?, 0⟩
  | 's' :: d =>
    match (String.ofList d).splitOn "." with
    | [h, w] => do pure ⟨.get, ← h.toNat?, ← w.toNat?⟩
    | _ => none
  | _ => none

open Aio.C20.Drain in
def parseLabel (s : String) : Option Label :=
  if s == "P" then some .recvPartial
  else if s == "B" then some .recvBody
  else do pure (.recv (← (s.splitOn "+").mapM parseReq))

open Aio.C20.Drain in
def parseTimed (s : String) : Option (Nat × Label) :=
  match s.splitOn ":" with
  | [t, l] => do pure (← t.toNat?, ← parseLabel l)
  | _ => none

open Aio.C20.Drain in
def parseConns : List String → Option (List (List (Nat × Label)))
  | [] => some []
  | "C" :: sc :: rest => do
    let s ← parseList parseTimed sc
    let r ← parseConns rest
    pure (s :: r)
  | _ => none

open Aio.C20.Drain in
def showObs : Obs → Option String
  | .hs t => some s!"hs@{t}"
  | .hr t => some s!"hr@{t}"
  | .resp t => some s!"resp@{t}"
  | .hx t => some s!"hx@{t}"
  | .sx t => some s!"sx@{t}"
  | .close t => some s!"close@{t}"
  | .done _ => none

open Aio.C20.Drain in
def drain (T t0 ds : String) (rest : List String) : String :=
  match T.toNat?, t0.toNat?, ds.toNat?, parseConns rest with
  | some T, some t0, some ds, some scripts =>
    let cs := scripts.map (runConn T t0 ds)
    let ret := returnTime (t0 + ds) cs
    let shown := (List.range cs.length).zip cs |>.map (fun (i, c) =>
      let o := c.obs.filterMap showObs
      s!"c{i}=" ++ (if o.isEmpty then "-" else ",".intercalate o))
    let openN := (cs.filter (·.transportOpen)).length
    " ".intercalate shown ++ (if shown.isEmpty then "" else " ") ++
      match ret with
      | some r => s!"ret={r} open={openN}"
      | none => "ret=never open=-"
  | _, _, _, _ => "bad-op"

def handle : List String → String
  | "life" :: entry :: apps => life entry apps
  | "drain" :: T :: t0 :: ds :: rest => drain T t0 ds rest
  | _ => "bad-op"

end Aio.Driver.C20
