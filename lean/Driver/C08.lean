import AioModel.Wire
import AioModel.C08
/-!
Driver commands of property C08.

`run <limit> <op>…` → one reply: the per-step projections joined by a space.
Ops: `F|hex` feed_data · `B` begin chunk · `E` end chunk · `Z` feed_eof · `X|id` set_exception ·
`D` connection lost · `s|n` set_read_chunk_size · `r|n|it` read(n) (`n` decimal or `all`) ·
`a|it` readany · `u|sephex|max|it` readuntil (max 0 = None) · `x|n` readexactly · `c|it` readchunk ·
`n|k` read_nowait (`k` decimal or `all`) · `w` resume the parked coroutine.  `it` = 1 when called
through the async iterator.
Projection of one step:
`out;evs;size;cursor;total;paused;tpaused;nbufs;off;splits;low;high;waiter;eof`.
-/
namespace Aio.Driver.C08
open Aio Aio.Wire Aio.C08

def parseN (s : String) : Option (Option Nat) :=
  if s == "all" then some none else s.toNat?.map some

def parseOp (s : String) : Option Op :=
  match s.splitOn "|" with
  | ["F", d] => do pure (.feed (← parseHex d))
  | ["B"] => some .beginChunk
  | ["E"] => some .endChunk
  | ["Z"] => some .feedEof
  | ["X", e] => do pure (.setExc (← e.toNat?))
  | ["D"] => some .disconnect
  | ["s", n] => do pure (.setChunkSize (← n.toNat?))
  | ["r", n, it] => do pure (.read (← parseN n) (parseBool it))
  | ["a", it] => some (.readAny (parseBool it))
  | ["u", sep, m, it] => do pure (.readUntil (← parseHex sep) (← m.toNat?) (parseBool it))
  | ["x", n] => do pure (.readExactly (← n.toNat?))
  | ["c", it] => some (.readChunk (parseBool it))
  | ["n", k] => do pure (.readNowait (← parseN k))
  | ["w"] => some .wakeup
  | _ => none

def showErr : Err → String
  | .exc e => s!"exc{e}"
  | .runtime => "runtime"
  | .assertion => "assertion"
  | .value => "value"
  | .lineTooLong => "linetoolong"
  | .fuel => "MODEL-FUEL"

def showOut : Out → String
  | .ok => "ok"
  | .data b => "data:" ++ showHex b
  | .chunk b e => "chunk:" ++ showHex b ++ ":" ++ showBool e
  | .stop => "stop"
  | .blocked => "blocked"
  | .err e => "err:" ++ showErr e
  | .incomplete p n => s!"incomplete:{showHex p}:{n}"
  | .bad => "bad"

def showEvs (l : List Ev) : String :=
  if l.isEmpty then "-" else String.ofList (l.map (fun e => match e with | .pause => 'P' | .resume => 'R'))

def showSplits : Option (List Nat) → String
  | none => "none"
  | some [] => "-"
  | some l => ",".intercalate (l.map toString)

def proj (s : S) (o : Out) : String :=
  ";".intercalate [showOut o, showEvs s.evs, toString s.size, toString s.cursor, toString s.total,
    showBool s.paused, showBool s.tpaused, toString s.bufs.length, toString s.off, showSplits s.splits,
    toString s.low, toString s.high, showBool s.waiter, showBool s.eof]

def runProj (s : S) : List Op → List String
  | [] => []
  | op :: ops => let (s, o) := step s op; proj s o :: runProj s ops

def handle : List String → String
  | "run" :: limit :: ops =>
    match limit.toNat?, ops.mapM parseOp with
    | some limit, some ops =>
      let s := init limit
      " ".intercalate (s!"init;{s.low};{s.high};{s.lowChunks};{s.highChunks}" :: runProj s ops)
    | _, _ => "bad-op"
  | _ => "bad-op"

end Aio.Driver.C08
