import AioModel.Wire
import AioModel.C17
/-!
Driver commands of property C17.

`run <cfg> <method> <url> <params> <defaults> <headers> <cookies> <body> <netrc> <cparse> <oracles> <chain>`

* cfg      `max,allow,trust,retry`
* url      `scheme,host,port,hasHost,cred,hostHdr,target`   (`~` = no credentials)
* params   `~` | request-target with the params applied
* defaults, headers  `~` | `name,value;…`   (session default headers, caller headers)
* cookies  `~` (None) | `!` (empty mapping) | `name,value;…`
* body     `~` | `hex,ctype,sized,oneShot`                   (ctype `~` = none)
* netrc    `~` | `host,auth;…`
* cparse   `~` | `raw:name,value;…/…`                        (parse_cookie_header oracle)
* oracles  `~` | per hop `J@R` joined by `/`: jar selection and per-request selection
* chain    `~` | replies joined by `/`: `status:sc:N|I|H|B`, `status:sc:U:<url>`, or `D` (peer closed
           the connection without answering)

Strings are `.`-separated decimal code points (`-` = empty).
Reply: one `scheme,host,port method target headers body` group per request, then
`E <events>` and `O <outcome>`, joined by ` # `.
-/
namespace Aio.Driver.C17
open Aio Aio.Wire Aio.C17

def parsePairs (s : String) : Option (List (Str × Str)) :=
  if s == "~" then some [] else
  (s.splitOn ";").mapM (fun p =>
    match p.splitOn "," with
    | [a, b] => do pure (← parseStr a, ← parseStr b)
    | _ => none)

def parseUrlFields : List String → Option Url
  | [sch, host, port, hh, cred, hostHdr, target] => do
    let sch ← sch.toNat?
    let host ← parseStr host
    let port ← port.toNat?
    let cred ← if cred == "~" then pure none else (parseStr cred).map some
    let hostHdr ← parseStr hostHdr
    let target ← parseStr target
    pure { origin := { scheme := sch, host := host, port := port }, hasHost := parseBool hh,
           cred := cred, hostHdr := hostHdr, target := target }
  | [sch, host, port, hh, cred, hostHdr, target, sp] => do
    let u ← parseUrlFields [sch, host, port, hh, cred, hostHdr, target]
    let sp ← sp.toNat?
    pure { u with origin := { u.origin with spelled := sp } }
  | _ => none

def parseBody (s : String) : Option (Option Body) :=
  if s == "~" then some none else
  match s.splitOn "," with
  | [d, ct, sized, one] => do
    let d ← parseHex d
    let ct ← if ct == "~" then pure none else (parseStr ct).map some
    pure (some { data := d, ctype := ct, sized := parseBool sized, oneShot := parseBool one })
  | _ => none

def parseResp (s : String) : Option Resp :=
  match s.splitOn ":" with
  | [st, sc, k] => do
    let st ← st.toNat?; let sc ← sc.toNat?
    let loc ← match k with
      | "N" => some Loc.none | "I" => some Loc.invalid | "H" => some Loc.nonHttp | "B" => some Loc.badOrigin
      | _ => none
    pure { status := st, loc := loc, sc := sc }
  | [st, sc, "U", u] => do
    let st ← st.toNat?; let sc ← sc.toNat?
    let u ← parseUrlFields (u.splitOn ",")
    pure { status := st, loc := .ok u, sc := sc }
  | _ => none

def parseReply (s : String) : Option Reply :=
  if s == "D" then some .drop else (parseResp s).map .resp

def parseList (s : String) (f : String → Option α) : Option (List α) :=
  if s == "~" then some [] else (s.splitOn "/").mapM f

def parseOracle (s : String) : Option (List (Str × Str) × List (Str × Str)) :=
  match s.splitOn "@" with
  | [j, r] => do pure (← parsePairs j, ← parsePairs r)
  | _ => none

def parseCparse (s : String) : Option (Str × List (Str × Str)) :=
  match s.splitOn ":" with
  | [raw, ps] => do pure (← parseStr raw, ← parsePairs ps)
  | _ => none

def showPairs (h : List Hdr) : String :=
  if h.isEmpty then "~" else ";".intercalate (h.map (fun x => showStr x.name ++ "," ++ showStr x.value))

def showSent (s : Sent) : String :=
  s!"{s.url.origin.scheme},{showStr s.url.origin.host},{s.url.origin.port} {showStr s.method} {showStr s.target} {showPairs s.headers} {showHex s.body}"

def showEv : Ev → String
  | .release i => s!"r{i}"
  | .close i => s!"c{i}"

def showErr : Err → String
  | .invalidUrl => "invalidUrl"
  | .invalidRedirectUrl => "invalidRedirectUrl"
  | .nonHttpRedirect => "nonHttpRedirect"
  | .authConflict => "valueError"
  | .badRequest => "valueError"
  | .tooManyRedirects => "tooManyRedirects"
  | .payloadConsumed => "payloadConsumed"
  | .disconnected => "disconnected"

def showOutcome : Outcome → String
  | .ok f h => s!"ok,{f}," ++ (if h.isEmpty then "~" else ".".intercalate (h.map toString))
  | .err e => "err," ++ showErr e
  | .pending => "pending"

/-- the jar as an oracle column: state = remaining per-hop selections -/
def oracleJar : Jar :=
  { σ := List (List (Str × Str)), filter := fun s _ => s.headD [], update := fun s _ _ => s.tail }

def handle : List String → String
  | ["run", cfg, method, url, params, defaults, headers, cookies, body, netrc, cparse, oracles, chain] =>
    let r : Option String := do
      let cfg ← match cfg.splitOn "," with
        | [m, a, t, rc] => do pure ({ maxRedirects := (← m.toNat?), allowRedirects := parseBool a, trustEnv := parseBool t,
                                      retryConnection := parseBool rc } : Cfg)
        | _ => none
      let method ← parseStr method
      let url ← parseUrlFields (url.splitOn ",")
      let params ← if params == "~" then pure none else (parseStr params).map some
      let defaults ← parsePairs defaults
      let headers ← parsePairs headers
      let cookies ← if cookies == "~" then pure none else if cookies == "!" then pure (some []) else (parsePairs cookies).map some
      let body ← parseBody body
      let netrc ← parsePairs netrc
      let cparse ← parseList cparse parseCparse
      let oracles ← parseList oracles parseOracle
      let chain ← parseList chain parseReply
      let env : Env :=
        { jar := oracleJar
          reqSel := fun hop _ _ => ((oracles.drop hop).head?.map (·.2)).getD []
          netrc := fun h => (netrc.find? (fun kv => kv.1 == h)).map (·.2)
          parseCookie := fun raw => ((cparse.find? (fun kv => kv.1 == raw)).map (·.2)).getD [] }
      let st := initF env cfg url params method defaults headers cookies body (oracles.map (·.1))
      let res := runF env cfg st chain
      let evs := if res.events.isEmpty then "~" else ",".intercalate (res.events.map showEv)
      pure (" # ".intercalate (res.sent.map showSent ++ ["E " ++ evs, "O " ++ showOutcome res.out]))
    r.getD "bad-op"
  | _ => "bad-op"

end Aio.Driver.C17
