import AioModel.Wire
import AioModel.C14
/-!
Driver commands of property C14.

* `tbl <op>… <Q|…>…`  build a route table with the registration ops, then resolve every request
  (`lin` = same, but answer with the linear reference rule instead of the index walk).
  ops: `R|method|path|hid|lit|requoted|…` (add_route), `S|prefix|requoted|hid` (add_static),
  `[` (new sub-application), `A|prefix|requoted` (close it: add_subapp), `M|e|domain` /
  `M|m|domain` (close it: add_domain, exact / mask), `F` (freeze the current application),
  `V|path|hid|m1,m2,…|lit|requoted|…` (add_view of a class defining the methods m1, m2, …; `~` = none).
  request: `Q|method|path_safe|normpath|host` (`host` = `~` for "no Host header").
  reply: `ops=<code,…> dump=<tables> res=<result;…>`
* `uf <path|lit|requoted|…> <name|quoted|…>`   url_for
* `mw <a><r><m> <rawpath> <endsSlash>`          normalize_path_middleware candidates
-/
namespace Aio.Driver.C14
open Aio Aio.Wire Aio.C14

def FUEL : Nat := 16

def showErr : Err → String
  | .value => "E_VALUE"
  | .runtime => "E_RUNTIME"
  | .assertion => "E_ASSERT"
  | .key => "E_KEY"
  | .unsupported => "E_UNSUPPORTED"
  | .oracle => "E_ORACLE"
  | .fuel => "E_FUEL"

def ltStr : Str → Str → Bool
  | [], [] => false
  | [], _ :: _ => true
  | _ :: _, [] => false
  | a :: s, b :: t => a < b || (a == b && ltStr s t)

def insertBy (lt : α → α → Bool) (x : α) : List α → List α
  | [] => [x]
  | y :: ys => if lt x y then x :: y :: ys else y :: insertBy lt x ys
def sortBy (lt : α → α → Bool) (l : List α) : List α := l.foldr (insertBy lt) []

def showDict (d : Dict) : String :=
  ",".intercalate ((sortBy (fun a b => ltStr a.1 b.1) d).map (fun kv => showStr kv.1 ++ "=" ++ showStr kv.2))

def showResult : Result → String
  | .found h d => s!"ok:{h}:{showDict d}"
  | .e405 a => "405:" ++ ",".intercalate ((sortBy ltStr a.eraseDups).map showStr)
  | .e404 => "404"
  | .nofuel => "E_FUEL"

partial def dump (t : Table) : String :=
  let one (r : Res) : String :=
    match r with
    | .plain p rts => "P" ++ showStr p ++ "/" ++ toString rts.length
    | .dyn _ ps rts => "D" ++ showStr (formatter ps) ++ "/" ++ toString rts.length
    | .static p rts => "S" ++ showStr p ++ "/" ++ toString rts.length
    | .sub p s => "A" ++ showStr p ++ dump s
    | .dom (.exact d) s => "M" ++ showStr d ++ dump s
    | .dom (.mask d) s => "W" ++ showStr d ++ dump s
  let idx := (sortBy (fun a b => ltStr a.1 b.1) (t.index.filter (fun e => !e.2.isEmpty))).map
    (fun e => showStr e.1 ++ ":" ++ ".".intercalate (e.2.map toString))
  "{" ++ ",".intercalate (t.rs.map one) ++ "#" ++ ";".intercalate idx ++ "#" ++
    ".".intercalate (t.matched.map toString) ++ "}"

def pairs : List String → Option (List (Str × Str))
  | [] => some []
  | k :: v :: t => do
    let k ← parseStr k; let v ← parseStr v; let r ← pairs t
    pure ((k, v) :: r)
  | _ => none

def parseReq (s : String) : Option Req :=
  match s.splitOn "|" with
  | ["Q", m, p, n, h] => do
    let m ← parseStr m; let p ← parseStr p; let n ← parseStr n
    let h ← if h == "~" then pure none else (parseStr h).map some
    pure { path := p, norm := n, method := m, host := h }
  | _ => none

/-- run the build program on a stack of (table, frozen) pairs; returns op codes and the final stack.
`XA|f|pfx|q` / `XA|b|pfx|q`: a mount attempt that is expected to be refused (`f`: on a frozen
throw-away application, `b`: on the current parent with a bad prefix) — the sub-application stays
on the stack, unchanged, for later use.  `XM|f|kind|d` / `XM|b`: same for add_domain (`b`: the
domain was refused by `Domain(...)`: oracle). -/
def build : List String → List (Table × Bool) → List String → Option (List String × List (Table × Bool))
  | [], st, codes => some (codes.reverse, st)
  | tok :: rest, st, codes =>
    match tok.splitOn "|", st with
    | "R" :: m :: path :: hid :: rq, (t, fz) :: st' =>
      match parseStr m, parseStr path, hid.toNat?, pairs rq with
      | some m, some path, some hid, some rq =>
        match addRouteOn fz rq t m path hid with
        | .ok t' => build rest ((t', fz) :: st') ("ok" :: codes)
        | .error e => build rest st (showErr e :: codes)
      | _, _, _, _ => none
    | "G" :: path :: hid :: rq, (t, fz) :: st' =>
      -- add_get(path, handler): resource.add_route(HEAD) then resource.add_route(GET); a refusal of the second
      -- leaves the first in place (code `…+H`)
      match parseStr path, hid.toNat?, pairs rq with
      | some path, some hid, some rq =>
        match addRouteOn fz rq t [72, 69, 65, 68] path hid with
        | .error e => build rest st (showErr e :: codes)
        | .ok t1 =>
          match addRouteOn fz rq t1 [71, 69, 84] path hid with
          | .ok t2 => build rest ((t2, fz) :: st') ("ok" :: codes)
          | .error e => build rest ((t1, fz) :: st') ((showErr e ++ "+H") :: codes)
      | _, _, _ => none
    | "V" :: path :: hid :: _defined :: rq, (t, fz) :: st' =>
      match parseStr path, hid.toNat?, pairs rq with
      | some path, some hid, some rq =>
        match addRouteOn fz rq t STAR path hid with
        | .ok t' => build rest ((t', fz) :: st') ("ok" :: codes)
        | .error e => build rest st (showErr e :: codes)
      | _, _, _ => none
    | ["S", pfx, q, hid], (t, fz) :: st' =>
      match parseStr pfx, parseStr q, hid.toNat? with
      | some pfx, some q, some hid =>
        match addStaticOn fz t pfx q hid with
        | .ok t' => build rest ((t', fz) :: st') ("ok" :: codes)
        | .error e => build rest st (showErr e :: codes)
      | _, _, _ => none
    | ["["], st => build rest ((Table.empty, false) :: st) codes
    | ["F"], (t, _) :: st' => build rest ((t.freeze, true) :: st') codes
    | ["A", pfx, q], (s, _) :: (t, fz) :: st' =>
      match parseStr pfx, parseStr q with
      | some pfx, some q =>
        match addSubappOn fz FUEL t pfx q s with
        | .ok t' => build rest ((t', fz) :: st') ("ok" :: codes)
        | .error e => build rest ((t, fz) :: st') (showErr e :: codes)
      | _, _ => none
    | ["M", kind, d], (s, _) :: (t, fz) :: st' =>
      match parseStr d with
      | some d =>
        if kind != "e" && kind != "m" then none else
        let rule := if kind == "e" then Rule.exact d else Rule.mask d
        match addDomainOn fz t rule s with
        | .ok t' => build rest ((t', fz) :: st') ("ok" :: codes)
        | .error e => build rest ((t, fz) :: st') (showErr e :: codes)
      | none => none
    | ["XA", mode, pfx, q], (s, sf) :: (t, fz) :: st' =>
      match parseStr pfx, parseStr q with
      | some pfx, some q =>
        if mode != "f" && mode != "b" then none else
        match addSubappOn (mode == "f" || fz) FUEL (if mode == "f" then Table.empty else t) pfx q s with
        | .ok t' => if mode == "f" then none else build rest ((t', fz) :: st') ("ok" :: codes)
        | .error e => build rest ((s, sf) :: (t, fz) :: st') (showErr e :: codes)
      | _, _ => none
    | ["XM", "f", kind, d], (s, sf) :: (t, fz) :: st' =>
      match parseStr d with
      | some d =>
        match addDomainOn true Table.empty (if kind == "e" then Rule.exact d else Rule.mask d) s with
        | .ok _ => none
        | .error e => build rest ((s, sf) :: (t, fz) :: st') (showErr e :: codes)
      | none => none
    | ["XM", "b"], _ :: _ :: _ => build rest st ("E_VALUE" :: codes)
    | _, _ => none

/-- the class-based views of a program: `V|path|hid|m1,m2,…|…` ↦ (hid, defined methods) -/
def viewsOf (toks : List String) : Option (List (Nat × List Str)) :=
  (toks.filter (fun t => t.startsWith "V|")).mapM (fun t =>
    match t.splitOn "|" with
    | _ :: _ :: hid :: defined :: _ => do
      let h ← hid.toNat?
      let ms ← if defined == "~" then pure [] else (defined.splitOn ",").mapM parseStr
      pure (h, ms)
    | _ => none)

def runTbl (useLinear : Bool) (toks : List String) : String :=
  let ops := toks.filter (fun t => !t.startsWith "Q|")
  let qs := toks.filter (fun t => t.startsWith "Q|")
  match build ops [(Table.empty, false)] [], qs.mapM parseReq, viewsOf toks with
  | some (codes, [(t, _)]), some reqs, some views =>
    let f := if useLinear then linear FUEL t else resolve FUEL t
    s!"ops={",".intercalate codes} dump={dump t} res={";".intercalate (reqs.map (fun q => showResult (afterView views q.method (f q))))}"
  | _, _, _ => "bad-op"

def handle : List String → String
  | "tbl" :: toks => runTbl false toks
  | "lin" :: toks => runTbl true toks
  | ["uf", tmpl, vals] =>
    match tmpl.splitOn "|" with
    | path :: rq =>
      match parseStr path, pairs rq, (if vals == "-" then some [] else pairs (vals.splitOn "|")) with
      | some path, some rq, some vals =>
        match compile rq path with
        | .error e => "err " ++ showErr e
        | .ok ps =>
          match urlFor ps vals with
          | .ok s => "ok " ++ showStr s
          | .error e => "err " ++ showErr e
      | _, _, _ => "bad-op"
    | [] => "bad-op"
  | ["mw", fl, path, ends] =>
    match fl.toList, parseStr path with
    | [a, r, m], some path =>
      let fl : MwFlags := { append := a == '1', remove := r == '1', merge := m == '1' }
      ",".intercalate ((mwCandidates fl path (ends == "1")).map showStr)
    | _, _ => "bad-op"
  | _ => "bad-op"

end Aio.Driver.C14
