import AioModel.Wire
import AioModel.C12
import AioModel.C12Spec
/-!
Driver commands of property C12.

`run <maxMsgSize> <compress> <decodeText> <queueLimit> <zresults> <op>…`
  * `<zresults>`: `-` or `;`-separated results of the real `decompress_sync` calls, in call
    order (`ok:<hex>` | `many` | `err`) — zlib is an oracle column, not modelled;
  * `<op>`: `F:<hex>` = `feed_data`, `R` = `_read_from_buffer`.
  Reply: one token per op, then ` M ` + the messages put on the queue, then ` Z ` + the
  `(input, max_length)` of every inflate call the model made.
`spec <maxMsgSize> <compress> <decodeText> <zresults> <hex>` — the reference decoder.
`utf8 <hex>` — `utf8Valid`.
-/
namespace Aio.Driver.C12
open Aio Aio.Wire Aio.C12

structure OSt where
  todo : List InflRes
  calls : List (Bytes × Nat)

/-- the inflate "oracle": answers with the recorded results of the real zlib, logs the calls -/
def oracle (rs : List InflRes) : Inflater where
  St := OSt
  init := { todo := rs, calls := [] }
  inflate st d m :=
    match st.todo with
    | r :: t => ({ todo := t, calls := (d, m) :: st.calls }, r)
    | [] => ({ todo := [], calls := (d, m) :: st.calls }, .error)

def parseZ (s : String) : Option (List InflRes) :=
  if s == "-" then some [] else
  (s.splitOn ";").mapM (fun t =>
    if t == "many" then some .tooMany
    else if t == "err" then some .error
    else match t.splitOn ":" with
      | ["ok", h] => (parseHex h).map .ok
      | _ => none)

def showErr : Option Err → String
  | none => "none"
  | some (.ws c) => s!"ws{c}"
  | some .zlib => "zlib"

def showPhase : Phase → String
  | .header => "H" | .len => "L" | .mask => "K" | .payload => "P"

def showMsg (m : Msg) : String :=
  (match m with
   | .text d => "T:" ++ showHex d
   | .binary d => "B:" ++ showHex d
   | .ping d => "P:" ++ showHex d
   | .pong d => "O:" ++ showHex d
   | .close c r => s!"C:{c}:" ++ showHex r) ++ s!"/{m.size}"

def showMsgs (ms : List Msg) : String :=
  if ms.isEmpty then "-" else ",".intercalate (ms.map showMsg)

def showCalls (cs : List (Bytes × Nat)) : String :=
  if cs.isEmpty then "-" else ";".intercalate (cs.reverse.map (fun (d, m) => showHex d ++ s!"@{m}"))

inductive Op where
  | feed (d : Bytes)
  | read

def parseOp (s : String) : Option Op :=
  if s == "R" then some .read else
  match s.splitOn ":" with
  | ["F", h] => (parseHex h).map .feed
  | _ => none

def showState {Z : Inflater} (r : Reader Z) : String :=
  s!"f:{showPhase r.p.k.phase},{r.tail.length},{r.p.k.frags.length},{r.p.fragCount},{r.p.k.toRead},{r.p.k.partialMsg.length},{r.p.k.msgs.length},{r.p.k.qsize},{showBool r.p.paused},{showErr r.exc}"

def runOps {Z : Inflater} (c : Cfg) : Reader Z → List Op → List String → Reader Z × List String
  | r, [], acc => (r, acc.reverse)
  | r, .feed d :: ops, acc =>
    let r' := feed c r d
    runOps c r' ops (showState r' :: acc)
  | r, .read :: ops, acc =>
    let (r', res) := read c r
    let s := match res with
      | .msg m => "r:" ++ showMsg m ++ s!",{r'.p.k.qsize},{showBool r'.p.paused}"
      | .raised e => "r:raise:" ++ showErr (some e)
      | .empty => "r:empty"
    runOps c r' ops (s :: acc)

def showViol : Spec.Viol → String
  | .rsv => "rsv" | .opcode => "opcode" | .ctlFragmented => "ctl-fragmented" | .ctlTooLong => "ctl-too-long"
  | .tooBig => "too-big" | .contNoStart => "cont-no-start" | .dataInMessage => "data-in-message"
  | .closePayload => "close-payload" | .closeCode => "close-code" | .utf8Text => "utf8-text"
  | .utf8Close => "utf8-close" | .inflate => "inflate"

def showSpecErr : Option Spec.Viol → String
  | none => "none"
  | some v => showErr (some v.toErr) ++ ":" ++ showViol v

def handle : List String → String
  | "run" :: mx :: cp :: dt :: ql :: zs :: ops =>
    match mx.toNat?, ql.toNat?, parseZ zs, ops.mapM parseOp with
    | some mx, some ql, some zs, some ops =>
      let c : Cfg := { maxMsgSize := mx, compress := parseBool cp, decodeText := parseBool dt, queueLimit := ql }
      let Z := oracle zs
      let (r, outs) := runOps (Z := Z) c {} ops []
      " ".intercalate outs ++ " M " ++ showMsgs r.p.k.msgs ++ " Z " ++ showCalls r.p.k.z.calls
    | _, _, _, _ => "bad-op"
  | ["spec", mx, cp, dt, zs, h] =>
    match mx.toNat?, parseZ zs, parseHex h with
    | some mx, some zs, some bs =>
      let c : Cfg := { maxMsgSize := mx, compress := parseBool cp, decodeText := parseBool dt, queueLimit := 0 }
      let Z := oracle zs
      let res := Spec.decode (Z := Z) c bs
      showMsgs res.msgs ++ " E " ++ showSpecErr res.err ++ " L " ++ showBool res.atLimit
    | _, _, _ => "bad-op"
  | ["utf8", h] =>
    match parseHex h with
    | some bs => showBool (utf8Valid bs)
    | none => "bad-op"
  | _ => "bad-op"

end Aio.Driver.C12
