import Driver.Http
/-! Driver commands of property C01: the shared HTTP parser model. -/
namespace Aio.Driver.C01
def handle : List String → String := Aio.Driver.Http.handle
end Aio.Driver.C01
