import AioModel.Wire
import AioModel.C16
import AioModel.C16Ref
/-!
Driver commands of property C16.

    run <allowIp> <now> <op>…     the jar model (`Aio.C16.step`)
    ref <allowIp> <now> <op>…     the RFC 6265 reference store (`Aio.C16.Ref`)

ops (fields `|`, cookies `;`, cookie fields `,`; strings as `.`-separated code points):

    S|<host or none>|<url path>|name,value,domain,path,secure,maxage,expires;…
    T|<dt>      F|<host>|<path>|<secure>      C      D|<domain>      L      X (dump state)

maxage / expires: `-` absent, `bad`, `i<int>`.  The reply has one segment per F and X op,
separated by spaces; a segment lists its items separated by `,` in the model's own order
(the harness sorts both sides).
-/
namespace Aio.Driver.C16
open Aio Aio.Wire Aio.C16

def parseInt (s : String) : Option Int :=
  if s.startsWith "-" then (s.drop 1).toNat?.map (fun n => -(n : Int)) else s.toNat?.map (fun n => (n : Int))

def parseAtt (s : String) : Option Att :=
  if s == "-" then some .absent
  else if s == "bad" then some .bad
  else if s.startsWith "i" then (parseInt (s.drop 1).toString).map .val
  else none

def parseRaw (s : String) : Option Raw :=
  match s.splitOn "," with
  | [n, v, d, p, sec, ma, ex] => do
    pure ⟨← parseStr n, ← parseStr v, ← parseStr d, ← parseStr p, parseBool sec, ← parseAtt ma, ← parseAtt ex⟩
  | _ => none

def parseHost (s : String) : Option (Option Str) :=
  if s == "none" then some none else (parseStr s).map some

def parseOp (s : String) : Option (Op ⊕ Unit) :=
  match s.splitOn "|" with
  | ["S", h, p, cs] => do
    let cs ← if cs == "" then some [] else (cs.splitOn ";").mapM parseRaw
    pure (.inl (.set (← parseHost h) (← parseStr p) cs))
  | ["T", dt] => do pure (.inl (.tick (← dt.toNat?)))
  | ["F", h, p, sec] => do pure (.inl (.query (← parseStr h) (← parseStr p) (parseBool sec)))
  | ["C"] => some (.inl .clear)
  | ["D", d] => do pure (.inl (.clearDomain (← parseStr d)))
  | ["L"] => some (.inl .saveLoad)
  | ["X"] => some (.inr ())
  | _ => none

def showPairs (l : List (Str × Str)) : String :=
  "[" ++ ",".intercalate (l.map (fun nv => showStr nv.1 ++ "=" ++ showStr nv.2)) ++ "]"

def showKey (k : Key) : String := showStr k.1 ++ "|" ++ showStr k.2.1 ++ "|" ++ showStr k.2.2

def showInt (i : Int) : String := toString i

def dump (j : Jar) : String :=
  "{cookies=" ++ ",".intercalate (j.cookies.map (fun e =>
      showKey e.key ++ "|" ++ showStr e.c.value ++ "|" ++ showStr e.c.domain ++ "|" ++ showStr e.c.path ++ "|" ++ showBool e.c.secure))
  ++ ";ho=" ++ ",".intercalate (j.hostOnly.map (fun dn => showStr dn.1 ++ "|" ++ showStr dn.2))
  ++ ";exp=" ++ ",".intercalate (j.expirations.map (fun kv => showKey kv.1 ++ "|" ++ showInt kv.2))
  ++ ";heap=" ++ ",".intercalate (j.heap.map (fun e => showInt e.1 ++ "|" ++ showKey e.2))
  ++ ";keys=" ++ "/".intercalate (j.keys.map (fun dp => showStr dp.1 ++ "|" ++ showStr dp.2)) ++ "}"

def runOps (allowIp : Bool) : World → List (Op ⊕ Unit) → List String → List String
  | _, [], acc => acc.reverse
  | w, .inr () :: ops, acc => runOps allowIp w ops (dump w.jar :: acc)
  | w, .inl op :: ops, acc =>
    let (w', out) := step allowIp w op
    match op with
    | .query .. => runOps allowIp w' ops (showPairs out :: acc)
    | _ => runOps allowIp w' ops acc

def refOps (allowIp : Bool) : Int → List Ref.RCookie → List (Op ⊕ Unit) → List String → List String
  | _, _, [], acc => acc.reverse
  | now, s, .inr () :: ops, acc => refOps allowIp now s ops acc
  | now, s, .inl op :: ops, acc =>
    let r := Ref.step allowIp now s op
    match op with
    | .query h p sec =>
      refOps allowIp r.1 r.2 ops
        (showPairs ((Ref.select allowIp r.1 r.2 h p sec).map (fun c => (c.name, c.value))) :: acc)
    | _ => refOps allowIp r.1 r.2 ops acc

def handle : List String → String
  | "run" :: a :: now :: ops =>
    match parseInt now, ops.mapM parseOp with
    | some now, some ops => " ".intercalate (runOps (parseBool a) { now := now } ops [])
    | _, _ => "bad-op"
  | "ref" :: a :: now :: ops =>
    match parseInt now, ops.mapM parseOp with
    | some now, some ops => " ".intercalate (refOps (parseBool a) now [] ops [])
    | _, _ => "bad-op"
  | _ => "bad-op"

end Aio.Driver.C16
