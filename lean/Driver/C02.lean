import AioModel.Wire
import AioModel.C02
import Driver.Http
/-!
Driver commands of property C02.

* `resp k=v …`  → the server-side preparation decision, the framing the writer puts on the
  wire, the client parser's view of it and its keep-alive decision (`Aio.C02.respVerdict`)
* `req k=v …`   → the same for the request direction (`Aio.C02.reqVerdict`)
* `feed …`      → the shared HTTP parser model on the recorded wire bytes (`Aio.Driver.Http`)
-/
namespace Aio.Driver.C02
open Aio Aio.Wire Aio.C02

def kv (args : List String) : List (String × String) :=
  args.filterMap (fun a => match a.splitOn "=" with | [k, v] => some (k, v) | _ => none)

def get (m : List (String × String)) (k : String) : Option String := (m.find? (·.1 == k)).map (·.2)

def optNat (s : String) : Option (Option Nat) := if s == "none" then some none else s.toNat?.map some
def bool? (s : String) : Option Bool := if s == "1" then some true else if s == "0" then some false else none
def optBool (s : String) : Option (Option Bool) := if s == "none" then some none else (bool? s).map some
def ver? (s : String) : Option Ver :=
  match s.splitOn "." with
  | [a, b] => do pure { maj := ← a.toNat?, min := ← b.toNat? }
  | _ => none
def coding? (s : String) : Option (Option Coding) :=
  match s with
  | "none" => some none | "deflate" => some (some .deflate) | "gzip" => some (some .gzip)
  | "identity" => some (some .identity) | _ => none
def body? (s : String) : Option RBody :=
  match s.splitOn ":" with
  | ["none"] => some .none
  | ["bytes", n] => n.toNat?.map .bytes
  | ["payload", n] => (optNat n).map .payload
  | _ => none
def compress? (s : String) : Option Compress :=
  match s with
  | "off" => some .off | "on" => some .on | "deflate" => some (.named .deflate)
  | "gzip" => some (.named .gzip) | "bad" => some .bad | _ => none

def showCoding : Option Coding → String
  | none => "none" | some .deflate => "deflate" | some .gzip => "gzip" | some .identity => "identity"
def showOptBool : Option Bool → String
  | none => "none" | some true => "1" | some false => "0"
def showFraming : Framing → String
  | .none => "none" | .length n => s!"len:{n}" | .chunked => "chunked" | .untilClose => "eof"
def showView (v : View) : String := s!"{showFraming v.framing},{showBool v.hasPayload},{showBool v.upgraded}"

def parseResp (m : List (String × String)) : Option (RespIn × Nat) := do
  let x : RespIn := {
    ver := ← ver? (← get m "ver"), method := ← parseHex (← get m "method"), status := ← (← get m "status").toNat?,
    isResponse := ← bool? (← get m "isresp"), body := ← body? (← get m "body"),
    userCL := ← optNat (← get m "ucl"), chunked := ← bool? (← get m "chunked"),
    compression := ← bool? (← get m "comp"), force := ← coding? (← get m "force"),
    userCE := ← bool? (← get m "uce"), acceptEnc := ← parseHex (← get m "ae"),
    userConn := ← optBool (← get m "uconn"), userCT := ← bool? (← get m "uct"),
    reqKeepAlive := ← bool? (← get m "rka"), forceClose := ← bool? (← get m "fc"),
    zlen := ← (← get m "zlen").toNat? }
  pure (x, ← (← get m "streamed").toNat?)

def parseReq (m : List (String × String)) : Option (ReqIn × Nat) := do
  let ucl : Option (Option Nat) ← (match ← get m "ucl" with
    | "none" => some none
    | "bad" => some (some none)
    | s => s.toNat?.map (fun n => some (some n)))
  let x : ReqIn := {
    ver := ← ver? (← get m "ver"), method := ← parseHex (← get m "method"),
    hasData := ← bool? (← get m "hasdata"), dataTruthy := ← bool? (← get m "truthy"),
    size := ← optNat (← get m "size"), chunked := ← optBool (← get m "chunked"),
    compress := ← compress? (← get m "compress"), expect100 := ← bool? (← get m "expect"),
    userCL := ucl, userTEchunked := ← bool? (← get m "ute"), userCE := ← bool? (← get m "uce"),
    userConn := ← optBool (← get m "uconn"), userExpect := ← bool? (← get m "uexpect"),
    connForceClose := ← bool? (← get m "cfc"), limited := ← bool? (← get m "limited") }
  pure (x, ← (← get m "actual").toNat?)

def handle : List String → String
  | "resp" :: args =>
    match parseResp (kv args) with
    | none => "bad-op"
    | some (x, streamed) =>
      match respVerdict x streamed with
      | .error e => "err " ++ e.name
      | .ok v =>
        let o := v.out
        s!"ok cl={showOptNat o.cl} te={showBool o.te} conn={showOptBool o.conn} ce={showCoding o.ce} ctd={showBool o.ctDefault} wlen={showOptNat o.wlength} wch={showBool o.wchunked} wz={showBool o.wcompress} bz={showBool o.bodyCompressed} ka={showBool o.keepAlive} empty={showBool o.emptyBody} wire={showFraming v.wire} view={showView v.view} cclose={showBool v.clientClose}"
  | "req" :: args =>
    match parseReq (kv args) with
    | none => "bad-op"
    | some (x, actual) =>
      match reqVerdict x actual with
      | .error e => "err " ++ e.name
      | .ok v =>
        let o := v.out
        s!"ok cl={showOptNat o.cl} te={showBool o.te} conn={showOptBool o.conn} ce={showCoding o.ce} expect={showBool o.expect} wch={showBool o.wchunked} wz={showBool o.wcompress} writes={showBool o.writes} limit={showOptNat o.limit} wire={showFraming v.wire} view={showView v.view} sclose={showBool v.serverClose}"
  | ["wend", o] =>
    let oc : Option SrcOutcome := match o with
      | "ok" => some .ok | "oserror" => some .osError | "exception" => some .exception
      | "cancelled" => some .cancelled | _ => none
    match oc with
    | none => "bad-op"
    | some oc =>
      let e := writeBytesEnd oc
      s!"eof={showBool e.writesEof} fails={showBool e.failsRequest} closes={showBool e.closesConn}"
  | "feed" :: rest => Aio.Driver.Http.handle ("feed" :: rest)
  | _ => "bad-op"

end Aio.Driver.C02
