import AioModel.Wire
import AioModel.C09
/-!
Driver commands of property C09.

`run <lax> <limit> <framing> <compressed> <sniff> <checkEof> <maxTrailers> <tok>…`
* framing: `L<n>` (Content-Length n) | `C` (chunked) | `E` (until EOF)
* `K:<in>:<maxlen>:<out|!>:<avail>:<eof>` — one recorded call of the real decompressor (in order)
* ops: `D:<hex>` deliver a segment · `X` peer closes (client `connection_lost`) · `R:<n>` `read(n)` ·
  `A` `readany()` · `S:<n>` `set_read_chunk_size(n)` · `Q:<cms>` continue `BaseRequest.read()`

Reply: one item per op, `<out>/<size>/<trPaused readingPaused paused hasMore eof ppLive>/<total>`,
then ` peak=<n> up=<err>`.

`rle <maxlen>… : <hex>…` drives `Codec.expand` alone (law checks / toy twin).
-/
namespace Aio.Driver.C09
open Aio Aio.Wire Aio.C09

def parseCall (s : String) : Option Call :=
  match s.splitOn ":" with
  | ["K", i, m, o, a, e] => do
    let i ← parseHex i
    let m ← m.toNat?
    let o ← if o == "!" then some none else (parseHex o).map some
    pure { input := i, maxLen := m, out := o, avail := parseBool a, atEof := parseBool e }
  | _ => none

def parseOp (s : String) : Option Op :=
  match s.splitOn ":" with
  | ["D", h] => (parseHex h).map .deliver
  | ["X"] => some .close
  | ["R", n] => n.toNat?.map .read
  | ["A"] => some .readAny
  | ["S", n] => n.toNat?.map .setChunk
  | ["Q", n] => n.toNat?.map .reqRead
  | ["PR", n] => n.toNat?.map .pread
  | ["PA"] => some .preadAny
  | ["PL"] => some .preadLine
  | ["XS"] => some .closeServer
  | _ => none

def parseFraming (s : String) : Option (Framing × Nat) :=
  if s == "C" then some (.chunked, 0)
  else if s == "E" then some (.untilEof, 0)
  else match s.toList with
    | 'L' :: r => (String.ofList r).toNat?.map (fun n => (.length, n))
    | _ => none

def showOut : Out → String
  | .none => "-"
  | .skipped => "skip"
  | .blocked => "blk"
  | .data bs => "d=" ++ showHex bs
  | .err e => "e=" ++ e.name

def showState {c : Codec} (w : World c) : String :=
  let b := fun (x : Bool) => if x then "1" else "0"
  s!"{bsize w.buf}/{b w.trPaused}{b w.readingPaused}{b (w.paused && w.ppLive && w.parserLive)}{b (w.hasMore && w.parserLive)}{b w.eof}{b (w.ppLive && w.parserLive)}/{w.total}"

def splitToks (toks : List String) : List String × List String :=
  toks.partition (fun t => t.startsWith "K:")

def showErrOpt : Option Err → String
  | none => "-"
  | some e => e.name

def handle : List String → String
  | "run" :: lax :: limit :: fr :: comp :: sniff :: chk :: mt :: toks =>
    let (ks, os) := splitToks toks
    match limit.toNat?, parseFraming fr, mt.toNat?, ks.mapM parseCall, os.mapM parseOp with
    | some limit, some (framing, len), some mt, some script, some ops =>
      let c := Codec.scripted script
      let w : World c := World.init c limit framing len (parseBool comp) (parseBool sniff) (parseBool chk)
        (parseBool lax) mt Gen.C09.needsInputClearsPause Gen.C09.waitRechecksException Gen.C09.waitChecksExceptionAtEntry
      let rs := runOuts w ops
      let items := rs.map (fun (r : World c × Out) => showOut r.2 ++ "/" ++ showState r.1)
      let wf := (rs.getLast?.map (·.1)).getD w
      " ".intercalate items ++ s!" peak={wf.peak} up={showErrOpt wf.upErr} left={wf.dst.todo.length}{if wf.dst.desync then " DESYNC" else ""}"
    | _, _, _, _, _ => "bad-op"
  | "rle" :: rest =>
    -- rle <m1> <m2> … : <hex1> <hex2> …   — feed input i_k with max_length m_k to Codec.expand
    let (ms, hs) := rest.span (· != ":")
    match ms.mapM (·.toNat?), (hs.drop 1).mapM parseHex with
    | some ms, some hs =>
      if ms.length != hs.length then "bad-op" else
      let rec go (st : Codec.expand.St) : List (Nat × Bytes) → List String → String
        | [], acc => " ".intercalate acc.reverse
        | (m, i) :: t, acc =>
          match Codec.expand.step st i m with
          | none => " ".intercalate (("!" :: acc).reverse)
          | some (st', o) => go st' t ((showHex o ++ ":" ++ showBool (Codec.expand.avail st')) :: acc)
      go Codec.expand.init (ms.zip hs) []
    | _, _ => "bad-op"
  | _ => "bad-op"

end Aio.Driver.C09
