import AioModel.Wire
/-! Driver commands of property C09 (stub until the model exists). -/
namespace Aio.Driver.C09
open Aio Aio.Wire

def handle : List String → String
  | _ => "bad-op"

end Aio.Driver.C09
