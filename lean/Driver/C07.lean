import AioModel.Wire
import AioModel.C07
/-!
Driver commands of property C07.

`run <fixes> <limit> <lph> <mask> <keepalive> <keys> <label>…` → the state projection after every label, joined
by `|` (`last …`: only the final projection).  `<fixes>` = five 0/1 digits (f7 f8 race close trclose); `<mask>` = which trace hooks suspend; `<keys>` = `.`-separated key of each
task; labels: `s<t>` spawn, `k` tick, `o<t>`/`f<t>` attempt ok/failed, `c<t>` cancel,
`m<t>` connect timeout, `r<t>`/`x<t>` release to pool / close, `l<c>` idle connection lost,
`C` connector close, `p<k>.<k>…` shuffle order, `t<t>` the trace callback of task t returns,
`a<d>` d seconds pass, `S` the keep-alive timer fires (`_cleanup()`).
-/
namespace Aio.Driver.C07
open Aio Aio.Wire Aio.C07

def parseNats (s : String) : Option (List Nat) :=
  if s == "" then some [] else (s.splitOn ".").mapM (fun t => t.toNat?)

def parseLabel (s : String) : Option Label :=
  match s.toList with
  | [] => none
  | c :: rest =>
    let arg := String.ofList rest
    match c with
    | 's' => arg.toNat?.map .spawn
    | 'k' => if rest.isEmpty then some .tick else none
    | 'o' => arg.toNat?.map (.createDone · true)
    | 'f' => arg.toNat?.map (.createDone · false)
    | 'c' => arg.toNat?.map .cancel
    | 'm' => arg.toNat?.map .timeout
    | 'r' => arg.toNat?.map (.release · true)
    | 'x' => arg.toNat?.map (.release · false)
    | 'l' => arg.toNat?.map .lose
    | 'C' => if rest.isEmpty then some .close else none
    | 'p' => (parseNats arg).map .shuffle
    | 't' => arg.toNat?.map .traceDone
    | 'a' => arg.toNat?.map .advance
    | 'S' => if rest.isEmpty then some .sweep else none
    | _ => none

def parseFixes (s : String) : Option Fixes :=
  match s.toList with
  | [a, b, c, d, e] =>
    if [a, b, c, d, e].all (fun x => x == '0' || x == '1') then
      some ⟨a == '1', b == '1', c == '1', d == '1', e == '1'⟩
    else none
  | _ => none

def dots (l : List Nat) : String := if l.isEmpty then "-" else ".".intercalate (l.map toString)

def showFail : Fail → String
  | .cancelled => "X" | .timeout => "T" | .oserr => "E" | .closedErr => "Q"

def showHook : Hook → String
  | .reuse _ => "r" | .qstart => "q" | .qend => "Q" | .cstart => "s" | .cend c => s!"e{c}"

def showTask (x : Task) : String :=
  let bang := if x.extCancel || x.timedOut then "!" else ""
  let tr := match x.tr with
    | none => ""
    | some (h, r) => "~" ++ showHook h ++ (if r then "+" else "")
  let base := match x.pc with
    | .idle => "i"
    | .start => "s"
    | .waiting => (match x.fut with | .pending => "w" | .woken => "W" | .cancelled => "V")
    | .creating none => "c"
    | .creating (some true) => "c+"
    | .creating (some false) => "c-"
    | .holding c => (if x.tr.isSome then s!"u{c}" else s!"h{c}")
    | .done => "d"
    | .failed f => showFail f
  match x.pc with
  | .idle | .done | .failed _ | .holding _ => base ++ tr ++ (if x.tr.isSome then bang else "")
  | _ => base ++ tr ++ bang

def showSt (nkeys : Nat) (s : St) : String :=
  let ks := List.range nkeys
  let per (f : Key → Nat) : String := ".".intercalate (ks.map (fun k => toString (f k)))
  let ph := s.acquired.countP (fun x => match x with | .ph _ => true | .conn _ => false)
  let opn := if s.conns.isEmpty then "-" else String.join (s.conns.map (fun c => showBool c.isOpen))
  let wq := if s.wkeys.isEmpty then "-" else
    ";".intercalate (s.wkeys.map (fun k => s!"{k}:{dots (s.waitq.filter (fun t => keyOf s t = k))}"))
  let idle := "/".intercalate (ks.map (fun k => dots (s.idle.filter (fun c => connKey s c = k))))
  s!"acq={s.acquired.length} ph={ph} host={per (hostCount s)} wq={wq} idle={idle} ready={dots s.ready} " ++
  s!"tasks={",".intercalate (s.tasks.map showTask)} open={opn} closed={showBool s.closed} timer={showBool s.timer}"

def handle : List String → String
  | "run" :: fx :: limit :: lph :: mask :: ka :: keys :: labs =>
    match parseFixes fx, limit.toNat?, lph.toNat?, mask.toNat?, ka.toNat?, parseNats keys, labs.mapM parseLabel with
    | some fx, some limit, some lph, some mask, some ka, some keys, some labs =>
      let nkeys := keys.foldl max 0 + 1
      let go := labs.foldl (fun (acc : St × List String) l =>
        let s := step fx acc.1 l
        (s, showSt nkeys s :: acc.2)) (init limit lph keys mask ka, [])
      "|".intercalate go.2.reverse
    | _, _, _, _, _, _, _ => "bad-op"
  | "last" :: fx :: limit :: lph :: mask :: ka :: keys :: labs =>
    match parseFixes fx, limit.toNat?, lph.toNat?, mask.toNat?, ka.toNat?, parseNats keys, labs.mapM parseLabel with
    | some fx, some limit, some lph, some mask, some ka, some keys, some labs =>
      showSt (keys.foldl max 0 + 1) (run fx (init limit lph keys mask ka) labs)
    | _, _, _, _, _, _, _ => "bad-op"
  | ["key", host, port, ssl] =>
    match parseStr host, (if port == "-" then some none else port.toNat?.map some) with
    | some h, some p =>
      let k := endpointKey { host := h, explicitPort := p, ssl := parseBool ssl }
      s!"{showStr k.1}|{k.2.1}|{showBool k.2.2}"
    | _, _ => "bad-op"
  | _ => "bad-op"

end Aio.Driver.C07
