import AioModel.Wire
import AioModel.C18
import AioModel.C18Ws
import AioModel.C18Timer
/-! Driver commands of property C18.
`run k=v … @t:ev;ev @t:ev …` → one line of canonical observables (see harness/c18.py). -/
namespace Aio.Driver.C18
open Aio Aio.Wire Aio.C18

def optNat (s : String) : Option (Option Nat) :=
  if s == "-" then some none else (s.toNat?).map some

def parseKV (cfg : Cfg × Bool) (tok : String) : Option (Cfg × Bool) :=
  match tok.splitOn "=" with
  | ["total", v] => (optNat v).map fun x => ({ cfg.1 with total := x }, cfg.2)
  | ["connect", v] => (optNat v).map fun x => ({ cfg.1 with connect := x }, cfg.2)
  | ["sc", v] => (optNat v).map fun x => ({ cfg.1 with sockConnect := x }, cfg.2)
  | ["sr", v] => (optNat v).map fun x => ({ cfg.1 with sockRead := x }, cfg.2)
  | ["limit1", v] => some ({ cfg.1 with limit1 := parseBool v }, cfg.2)
  | ["dns", v] => some ({ cfg.1 with useDns := parseBool v }, cfg.2)
  | ["naddr", v] => v.toNat?.map fun x => ({ cfg.1 with naddr := x }, cfg.2)
  | ["wstall", v] => some ({ cfg.1 with wstall := parseBool v }, cfg.2)
  | ["think", v] => v.toNat?.map fun x => ({ cfg.1 with think := x }, cfg.2)
  | ["buf", v] => v.toNat?.map fun x => ({ cfg.1 with bufsize := x }, cfg.2)
  | ["https", v] => some ({ cfg.1 with https := parseBool v }, cfg.2)
  | ["thr", v] => v.toNat?.map fun x => ({ cfg.1 with thr := x }, cfg.2)
  | ["early", v] => some ({ cfg.1 with early := parseBool v }, cfg.2)
  | ["x100", v] => some ({ cfg.1 with expect100 := parseBool v }, cfg.2)
  | ["c0", v] => v.toNat?.map fun x => ({ cfg.1 with c0 := x }, cfg.2)
  | ["cd", v] => some ({ cfg.1 with closeDelim := parseBool v }, cfg.2)
  | ["co", v] => some (cfg.1, parseBool v)
  | _ => none

def parseEv (s : String) : Option Ev :=
  match s with
  | "H" => some .startH
  | "R" => some .startR
  | "C" => some .startC
  | "HR" => some .holderRelease
  | "D" => some .dnsAnswer
  | "W" => some .writeResume
  | "X" => some .cancel
  | "E" => some .peerEof
  | "XL" => some .cancelLate
  | _ =>
    if s.startsWith "K" then (s.drop 1).toNat?.map Ev.connDone
    else if s.startsWith "T" then (s.drop 1).toNat?.map Ev.tlsDone
    else if s.startsWith "B" then
      match ((s.drop 1).toString.splitOn ".").mapM (·.toNat?) with
      | some [n, hd, bb, eof] => some (.bytes { n := n, headDone := hd == 1, bodyBytes := bb, eof := eof == 1 })
      | some [n, hd, bb, eof, im, rd] =>
        some (.bytes { n := n, headDone := hd == 1, bodyBytes := bb, eof := eof == 1, interim := im == 1, redirect := rd == 1 })
      | some [n, hd, bb, eof, im] =>
        some (.bytes { n := n, headDone := hd == 1, bodyBytes := bb, eof := eof == 1, interim := im == 1 })
      | _ => none
    else none

def parseInstant (tok : String) : Option (Nat × List Ev) :=
  if !tok.startsWith "@" then none else
  match (tok.drop 1).toString.splitOn ":" with
  | [t, evs] => do
    let t ← t.toNat?
    let evs ← (evs.splitOn ";").mapM parseEv
    pure (t, evs)
  | _ => none

def showOutcome : Outcome → String
  | .ok => "ok" | .timeout => "E_TIMEOUT" | .connTimeout => "E_CONN_TIMEOUT"
  | .sockTimeout => "E_SOCK_TIMEOUT" | .cancelled => "E_CANCELLED"

def showC : CPc → String
  | .none => "none" | .ok => "ok" | .failed => "E_FAILED" | .cancelled => "E_CANCELLED"
  | _ => "pending"

def render (cfg : Cfg) (s : St) : String :=
  let r := match s.pc with
    | .done o t => s!"{showOutcome o}@{t}"
    | _ => "pending@-1"
  let hdr := match s.hdrAt with | some t => toString t | none => "-1"
  let live := (if s.pc.isDone || s.pc = .idle then [] else ["R"]) ++ (if s.wr = .parked then ["task"] else [])
  let live := if live.isEmpty then "-" else ",".intercalate live
  let follow := if !s.pc.isDone then "n/a" else if cfg.limit1 && s.slot != .none then "E_TIMEOUT" else "ok"
  s!"r={r} hdr={hdr} c={showC s.cpc} acq={if s.slot = .none then 0 else 1} wait={s.poolQ.length} " ++
  s!"pooled={(if s.pooled && s.tr = .open then 1 else 0) + s.oldPooled} open={(if s.tr = .open then 1 else 0) + s.oldPooled} live={live} " ++
  s!"dnsw={(if s.dnsWaitR then 1 else 0) + (if s.dnsWaitC then 1 else 0)} " ++
  s!"lookups={match s.lookup with | .none => 0 | _ => 1} dnscalls={s.dnsCalls} follow={follow} " ++
  s!"cnl={if s.pc.isDone then toString s.cancelling else "-"}"

def handle : List String → String
  | "run" :: rest =>
    let kvs := rest.filter (fun t => !t.startsWith "@")
    let ins := rest.filter (fun t => t.startsWith "@")
    match kvs.foldlM parseKV (({} : Cfg), false), ins.mapM parseInstant with
    | some (cfg, co), some tl =>
      let s := observe cfg (run cfg (init co cfg.c0) tl)
      render cfg s
    | _, _ => "bad-op"
  | ["ws", kind, a1, a2, recv, tc, peer, cancel] =>
    -- kind: default | obj <recv> <close> | float <close> -
    let arg : Option WsArg :=
      if kind == "default" then some .default
      else if kind == "obj" then (do let r ← optNat a1; let c ← optNat a2; pure (.obj ⟨r, c⟩))
      else if kind == "float" then a1.toNat?.map .legacy
      else none
    match arg, optNat recv, tc.toNat?, optNat peer, optNat cancel with
    | some arg, some recv, some tc, some peer, some cancel =>
      let w := effWs arg recv
      let o := match wsClose w tc peer cancel with
        | .closedOk t => s!"closed@{t} code=1000"
        | .closedAbnormal t => s!"closed@{t} code=1006"
        | .cancelled t => s!"E_CANCELLED@{t} code=-"
        | .pending => "pending@-1 code=-"
      s!"recv={showOptNat w.recv} close={showOptNat w.close} r={o}"
    | _, _, _, _, _ => "bad-op"
  | ["tc", c, depth, ops] =>
    -- TimerContext machine: ops = string over {F (timer fires), X (external cancel)}, "-" = none
    match c.toNat?, depth.toNat? with
    | some c, some depth =>
      let os := (if ops == "-" then [] else ops.toList).map (fun ch => if ch == 'F' then TOp.fire else TOp.ext)
      let r := tcRun c depth os
      let o := match r.1 with | .result => "result" | .timeout => "E_TIMEOUT" | .cancelled => "E_CANCELLED"
      s!"{o} cnl={r.2}"
    | _, _ => "bad-op"
  | ["ceil", kind, now, d] =>
    match now.toNat?, d.toNat? with
    | some now, some d =>
      if kind == "total" then toString (totalDeadline thr now d)
      else if kind == "ctx" then toString (ctxDeadline thr now d) else "bad-op"
    | _, _ => "bad-op"
  | _ => "bad-op"

end Aio.Driver.C18
