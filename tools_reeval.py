#!/usr/bin/env python3
"""re-evaluate every seeded change that the latest evaluation did not catch with a concrete replay"""
import json, glob, os, subprocess, sys
todo = []
for d in sorted(glob.glob('/verif/seeded/*/meta.json')):
    m = json.load(open(d)); sid = os.path.basename(os.path.dirname(d))
    ch = m.get('checks', {})
    conc = [c for c, v in ch.items() if v['rc'] == 1 and any('no-failing-input-found' not in l for l in v['lines'])]
    own = sid.split('-')[0]
    if own not in conc:
        todo.append((sid, own, sorted(set([own] + conc))))
print("to re-evaluate:", [t[0] for t in todo])
if "--run" in sys.argv:
    for sid, own, checks in todo:
        r = subprocess.run(["python3", "/verif/tools_seed.py", f"/verif/seeded/{sid}", sid] + checks, capture_output=True, text=True)
        print([l for l in r.stdout.splitlines() if l.startswith("{")][-1][:300] if r.stdout else r.stderr[-300:], flush=True)
