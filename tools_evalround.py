#!/usr/bin/env python3
"""tools_evalround.py <srcroot> <offset> <P> [P...] : evaluate <srcroot>/<P>/out/{1,2,3} as seeds <P>-<n+offset> with the property's own check"""
import subprocess, sys, os
root, off = sys.argv[1], int(sys.argv[2])
for P in sys.argv[3:]:
    for n in (1, 2, 3):
        src = f"{root}/{P}/out/{n}"
        if not os.path.exists(src + "/patch.diff"):
            print(P, n, "missing"); continue
        r = subprocess.run(["python3", "/verif/tools_seed.py", src, f"{P}-{n + off}", P], capture_output=True, text=True)
        out = [l for l in r.stdout.splitlines() if l.startswith("{")]
        print(out[-1][:330] if out else ("ERR " + r.stderr[-300:]), flush=True)
    subprocess.run(["git", "-C", "/repo", "worktree", "remove", "--force", f"{root}/{P}/repo"], capture_output=True)
