#!/usr/bin/env python3
"""Regenerates MANIFEST.json from harness/registry.py (single source of truth)."""
import json, os, sys
HERE = os.path.dirname(os.path.abspath(__file__))
sys.path.insert(0, HERE)
from harness.registry import CHECKS, NOT_APPLICABLE, NOTES

m = {
    "version": 1,
    "setup_cmd": "cd lean && lake build AioModel AioProps Driver aiodriver",
    "hooks": {
        "guard": "AIOHTTP_VERIF",
        "enable": "no source hooks are needed: checks import /repo in-process with PYTHONPATH=/repo AIOHTTP_NO_EXTENSIONS=1 AIOHTTP_NOSENDFILE=1 (set by ./check)",
        "baseline_off_cmd": "cd /repo && /venv/bin/python -m pytest -ra -q -p no:cacheprovider --timeout=900 --continue-on-collection-errors",
        "source_commits": [],
        "add_only": True,
    },
    "engines": [{
        "name": "lean4-model+correspondence",
        "path": "lean/ , harness/ , check",
        "serves_properties": [c["property_id"] for c in CHECKS],
        "kind_free_text": "hand-written executable Lean 4 models with kernel-checked theorems; generated tables re-extracted from the source each run; differential correspondence of model vs implementation through a native line-protocol driver; direct property oracle as failing-input search",
    }],
    "checks": [],
    "notes": NOTES,
    "not_applicable": NOT_APPLICABLE,
}
for c in CHECKS:
    pid = c["property_id"]
    m["checks"].append({
        "property_id": pid,
        "quick_cmd": f"./check {pid} --tier quick",
        "thorough_cmd": f"./check {pid} --tier thorough",
        "evidence_file": f"/verif/evidence/{pid}.json",
        "replay_cmd_template": f"./check {pid} --replay {{path}}",
        "engine": "lean4-model+correspondence",
        "level_claimed": {"category": "proof", "text": c["text"], "design_ref": c.get("design_ref", "DESIGN.md §8 " + pid)},
        "level_note": c["note"],
        "technique": c["technique"],
    })
with open(os.path.join(HERE, "MANIFEST.json"), "w") as f:
    json.dump(m, f, indent=1)
print("MANIFEST.json written:", [c["property_id"] for c in CHECKS])
