import asyncio, aiohttp
from aiohttp.client_proto import ResponseHandler
from unittest import mock
async def main():
    loop = asyncio.get_running_loop()
    p = ResponseHandler(loop)
    tr = mock.Mock(); tr.is_closing.return_value = False
    p.connection_made(tr)
    p.set_response_params(read_until_eof=True, read_bufsize=4)
    p1 = bytes.fromhex("485454502f312e3120323030204f4b0d0a5472616e736665722d456e636f64696e673a206368756e6b65640d0a0d0a610d0a646464646464646464640d0a3131")
    p2 = bytes.fromhex("0d0a64646464646464646464646464646464640d0a330d0a6464640d0a610d0a646464646464646464640d0a300d0a0d0a")
    print(p1[-20:], p2[:10])
    p.data_received(p1)
    msg, payload = await p.read()
    print("paused after p1:", p._reading_paused, "tail", p._parser._payload_parser._chunk_tail if p._parser._payload_parser else None)
    d = await payload.readany(); print("read", d, "paused now", p._reading_paused)
    pp = p._parser._payload_parser
    print("chunk state", pp._chunk, "tail", pp._chunk_tail, "size", pp._chunk_size)
    p.data_received(p2)
    print("after p2: buffered", payload._size, "eof", payload.is_eof(), "exc", payload.exception(), "state", pp._chunk, pp._chunk_tail[:20], pp._chunk_size)
asyncio.run(main())
