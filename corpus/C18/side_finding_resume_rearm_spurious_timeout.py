import asyncio, gzip, zlib
from unittest import mock
from harness.common import c18env
from aiohttp.client_proto import ResponseHandler
import aiohttp

def run(nbytes, bufsize, sock_read, sleep, enc="gzip"):
    loop = c18env.DLoop(); asyncio.set_event_loop(loop)
    log = []
    async def main():
        p = ResponseHandler(loop)
        tr = mock.Mock(); tr.is_closing.return_value = False
        tr.pause_reading.side_effect = lambda: log.append((c18env.ms(loop), "pause"))
        tr.resume_reading.side_effect = lambda: log.append((c18env.ms(loop), "resume"))
        p.connection_made(tr)
        p.set_response_params(read_until_eof=True, read_bufsize=bufsize, read_timeout=sock_read, auto_decompress=True)
        body = gzip.compress(b"\0" * nbytes)
        head = b"HTTP/1.1 200 OK\r\nContent-Encoding: gzip\r\nContent-Length: %d\r\n\r\n" % len(body)
        p.start_timeout()                 # request sent
        p.data_received(head + body)      # the peer has sent EVERYTHING at t=0
        msg, payload = await p.read()
        got = 0
        try:
            while True:
                chunk = await payload.readany()
                if not chunk: break
                got += len(chunk)
                await asyncio.sleep(sleep)
            return ("ok", got, c18env.ms(loop))
        except BaseException as e:
            return (type(e).__name__, got, c18env.ms(loop), "timer armed while paused?", p._reading_paused)
    try:
        r = loop.run_until_complete(main())
    finally:
        loop.close()
    return r, log[:8]
for args in [(4_000_000, 65536, 2.0, 3.0), (4_000_000, 65536, 2.0, 0.5), (300_000, 65536, 2.0, 3.0), (4_000_000, 2**16, None, 3.0)]:
    print(args, run(*args))
