"""Standalone reproduction of the two C18 findings on the real code (virtual time).
Run:  PYTHONPATH=$REPO:$VERIF AIOHTTP_NO_EXTENSIONS=1 /venv/bin/python corpus/C18/repro.py"""
import json, os
from harness.common.c18env import run_scenario
here = os.path.dirname(os.path.abspath(__file__))
for name in ("sock-connect-per-address", "pool-cowaiter-lost-wakeup"):
    sc = json.load(open(os.path.join(here, name + ".json")))
    sc["limit"] = 1 if (sc.get("holder") is not None or sc.get("co") == "pool") else 0
    out = run_scenario(sc)
    print(name, {k: out[k] for k in ("r", "r_at", "c", "acquired", "waiters")}, "attempts", out["trace"]["attempts"])
# expected on the unchanged tree:
#  sock-connect-per-address: sock_connect=2 s, lookup answered at 5 ms with 2 addresses, both stalled
#      -> r=E_CONN_TIMEOUT at 4005 ms (2 x 2000 after the lookup), attempts at [5, 2005]
#  pool-cowaiter-lost-wakeup (F8, fixed in the repository since): limit=1; holder releases at 2250 ms (wakes R), R cancelled before it runs
#      -> before the fix: c=pending, waiters=1 with a free slot; after it: c=ok, waiters=0
