# standalone reproduction: symlink loop + dot-dot lets a non-follow static route serve a file outside its root
import asyncio, os, shutil, sys, tempfile
import aiohttp; from aiohttp import web
print(aiohttp.__file__, sys.version.split()[0])
B = os.path.realpath(tempfile.mkdtemp()); root = os.path.join(B, "root"); os.makedirs(root); os.makedirs(os.path.join(B, "outside"))
open(os.path.join(B, "outside", "secret.txt"), "w").write("SECRET outside the root\n")
os.symlink("../outside/secret.txt", os.path.join(root, "link_out"))   # a link the route must not follow
os.symlink("self", os.path.join(root, "self"))                        # any symlink loop inside the root
async def main():
    app = web.Application(); app.router.add_static("/static", root)   # follow_symlinks is off
    runner = web.AppRunner(app); await runner.setup(); site = web.TCPSite(runner, "127.0.0.1", 0); await site.start()
    port = site._server.sockets[0].getsockname()[1]
    for t in ["/static/link_out", "/static/self/../link_out", "/static/self/%2e%2e/link_out"]:
        r, w = await asyncio.open_connection("127.0.0.1", port)
        w.write(f"GET {t} HTTP/1.1\r\nHost: x\r\nConnection: close\r\n\r\n".encode()); data = await r.read(); w.close()
        print(t, data.split(b"\r\n")[0], data.split(b"\r\n\r\n", 1)[1][:40])
    await runner.cleanup()
try: asyncio.run(main())
finally: shutil.rmtree(B)
